"""C15-C17: calling every documented read accessor of a running order, its stories and items, and
recording what came back (or which accessor raised) in the encoding of spec/MosObserve.tla."""
import json
import os
import random
import time
import warnings

from . import project, tlc, pipeline

NONE = "~"
NIL = []


def _q(v, flags):
    if v is None:
        return NIL
    q = float(v) * 4
    if q != int(q):
        flags["exact"] = False
    return [int(q)]


def _t(d, flags):
    if d is None:
        return NIL
    return project.time_q(d, flags)


def _s(x):
    return NONE if x is None else x


def codes(s):
    return [ord(c) for c in s]


def body_entries(body):
    out = []
    for b in body:
        if isinstance(b, str):
            out.append({"kind": "p", "text": codes(b), "id": NONE})
        else:
            out.append({"kind": "item", "text": [], "id": _s(b.id)})
    return out


def observe(ro):
    """obs record of a RunningOrder; never raises"""
    raised = []
    flags = {"exact": True}

    def get(name, fn, default):
        try:
            with warnings.catch_warnings():
                warnings.simplefilter("ignore")
                return fn()
        except Exception as e:  # noqa: BLE001
            raised.append("%s:%s" % (name, type(e).__name__))
            return default

    stories = get("ro.stories", lambda: list(ro.stories), [])
    o_ro = {"duration": get("ro.duration", lambda: _q(ro.duration, flags), NIL),
            "start": get("ro.start_time", lambda: _t(ro.start_time, flags), NIL),
            "end_": get("ro.end_time", lambda: _t(ro.end_time, flags), NIL),
            "script": get("ro.script", lambda: [codes(s) for s in ro.script], []),
            "body": get("ro.body", lambda: body_entries(ro.body), [])}
    get("ro.ro_slug", lambda: ro.ro_slug, None) if ro.base_tag.find("roSlug") is not None else None
    get("ro.ro_id", lambda: ro.ro_id, None)
    get("ro.message_id", lambda: ro.message_id, None)
    get("ro.completed", lambda: ro.completed, None)
    get("ro.repr", lambda: repr(ro), None)
    o_st = []
    for k, st in enumerate(stories):
        n = "story[%d]." % k

        def items():
            out = []
            for it in st.items:
                out.append({"id": _s(it.id), "slug": _s(it.slug), "type": _s(it.type), "object_id": _s(it.object_id),
                            "mos_id": _s(it.mos_id), "note": _s(it.note)})
                repr(it)
                str(it)
            return out
        o_st.append({"id": get(n + "id", lambda: _s(st.id), NONE), "slug": get(n + "slug", lambda: _s(st.slug), NONE),
                     "duration": get(n + "duration", lambda: _q(st.duration, flags), NIL),
                     "offset": get(n + "offset", lambda: _q(st.offset, flags), NIL),
                     "start": get(n + "start_time", lambda: _t(st.start_time, flags), NIL),
                     "end_": get(n + "end_time", lambda: _t(st.end_time, flags), NIL),
                     "script": get(n + "script", lambda: [codes(s) for s in st.script], []),
                     "body": get(n + "body", lambda: body_entries(st.body), []),
                     "items": get(n + "items", items, [])})
        get(n + "repr", lambda: (repr(st), str(st)), None)
    return {"raised": raised, "exact": flags["exact"], "ro": o_ro, "stories": o_st}


def observe_twice(ro):
    """the accessors are functions of the document: asking again gives the same answers (anything else is recorded as a
    raised accessor, i.e. obs_total fails)"""
    first = observe(ro)
    second = observe(ro)
    if json.dumps(first, sort_keys=True) != json.dumps(second, sort_keys=True):
        second["raised"] = list(second["raised"]) + ["repeat:DifferentAnswer"]
    return second


# ------------------------------------------------------------------------------------------
# rendering a view (spec/MC_observe.tla) to running-order XML
# ------------------------------------------------------------------------------------------
from xml.sax.saxutils import escape  # noqa: E402
import datetime as _dt  # noqa: E402


def num(q, rng=None):
    """a number of seconds, in one of several equivalent decimal spellings"""
    v = q / 4.0
    plain = str(int(v)) if v == int(v) else repr(v)
    if rng is None:
        return plain
    k = rng.random()
    if v < 0:               # a minus sign: only blanks may surround it
        return plain if k < 0.7 else " " + plain + " "
    if k < 0.6:
        return plain
    if k < 0.7:
        return "%.2f" % v
    if k < 0.8:
        return "0" + plain
    if k < 0.86:
        return " " + plain + " "
    if k < 0.9:
        return "+" + plain
    if k < 0.95:                    # exponent notation, more decimals than needed
        return ("%de0" % v) if v == int(v) else "%.4f" % v
    return ("%.1E" % v) if (v * 10) % 10 == 0 and v < 10 else "%.3f" % v


def tim(q, rng=None):
    """an instant, in one of several spellings dateutil reads alike"""
    zone, q = divmod(q, project.ZONE)
    d = project.BASE + _dt.timedelta(seconds=q / 4.0)
    k = rng.random() if rng is not None else 1.0
    if k < 0.1:
        return "\n      " + d.isoformat() + ("", "Z", "+01:00", "-05:00")[zone] + "\n    "      # a value on a line of its own
    if k < 0.2:
        return d.isoformat(sep=" ") + ("", " UTC", " +01:00", " -05:00")[zone]                # blank instead of T, blank before the offset
    if k < 0.25 and q % 4 == 0:
        return d.strftime("%a, %d %b %Y %H:%M:%S") + ("", " GMT", " +0100", " -0500")[zone]   # RFC 2822 style
    if k < 0.6 and q % 240 == 0:
        return d.strftime("%Y-%m-%dT%H:%M") + ("", "Z", "+01:00", "-05:00")[zone]            # a whole minute, written without seconds
    return d.isoformat() + ("", "Z", "+01:00", "-05:00")[zone]


NESTED_STORY = ("<story><storyID>ARCHIVE-77</storyID><storySlug>archived</storySlug><mosExternalMetadata><mosPayload>"
                "<StoryDuration>500</StoryDuration><StoryStarted>2019-12-31T00:00:00</StoryStarted></mosPayload></mosExternalMetadata>"
                "<p>archived paragraph</p><item><itemID>OLD1</itemID><itemSlug>old</itemSlug></item></story>")


def render_item(iv):
    parts = ["<itemID>%s</itemID>" % escape(iv["id"]), "<itemSlug>%s</itemSlug>" % escape(iv["slug"])]
    if iv["object_id"] != NONE:
        parts.append("<objID>%s</objID>" % escape(iv["object_id"]))
    if iv["mos_id"] != NONE:
        parts.append("<mosID>%s</mosID>" % escape(iv["mos_id"]))
    if iv["type"] != NONE:
        parts.append("<objType>%s</objType>" % escape(iv["type"]))
    if iv["note"] != NONE:
        parts.append('<mosExternalMetadata><mosSchema>sch.item</mosSchema><mosPayload><wrap><studioCommand type="other">'
                     '<text>no</text></studioCommand><studioCommand type="note"><text>%s</text></studioCommand></wrap>'
                     '</mosPayload></mosExternalMetadata>' % escape(iv["note"]))
    return "<item>%s</item>" % "".join(parts)


def render_view(v, rng):
    pretty = rng.random() < 0.5
    nl = "\n" if pretty else ""
    out = ["<mos>", "<mosID>m</mosID>", "<messageID>77</messageID>", "<roCreate>", "<roID>RO1</roID>", "<roSlug>slug</roSlug>"]
    if v["edstart"]:
        out.append("<roEdStart>%s</roEdStart>" % tim(v["edstart"][0]))
    for s in v["stories"]:
        out.append("<story>")
        out.append("<storyID>%s</storyID>" % escape(s["id"]) if s["id"] != NONE else
                   ("<storyID/>" if rng.random() < 0.5 else "<storyID></storyID>"))
        if s["slug"] != NONE:
            out.append("<storySlug>%s</storySlug>" % escape(s["slug"]))
        if s["md"] == "nopayload":
            out.append("<mosExternalMetadata><mosSchema>sch.time</mosSchema></mosExternalMetadata>")
        elif s["md"] == "payload":
            pay = []
            for tag, key, f in (("StoryStarted", "st", lambda q: tim(q, rng)), ("StoryDuration", "sd", lambda q: num(q, rng)),
                                ("TextTime", "tt", lambda q: num(q, rng)), ("MediaTime", "mt", lambda q: num(q, rng)),
                                ("StoryEnded", "en", lambda q: tim(q, rng))):
                if s[key]:
                    pay.append("<%s>%s</%s>" % (tag, f(s[key][0]), tag))
            if rng.random() < 0.3:          # an archived version of the story inside the payload: not a story of the running order
                pay.append(NESTED_STORY)
            out.append("<mosExternalMetadata><mosSchema>sch.time</mosSchema><mosPayload><Approved>1</Approved>%s</mosPayload>"
                       "</mosExternalMetadata>" % "".join(pay))
        items = list(s["items"])
        for b in s["body"]:
            if b["kind"] == "p":
                text = "".join(chr(c) for c in b["text"])
                out.append("<p>%s</p>" % escape(text, {"\r": "&#13;"}) if text else ("<p/>" if rng.random() < 0.5 else "<p></p>"))
            elif b["kind"] == "item":
                out.append(render_item(items.pop(0)))
            else:
                out.append("<storyNote>other element</storyNote>" if rng.random() < 0.6 else "<linked>%s</linked>" % NESTED_STORY)
        out.append("</story>")
    out += ["</roCreate>", "</mos>"]
    return nl.join(out)


def strip_md(v):
    """for the round-trip check: without the renderer hint `md` and without `other` body elements (alpha also lists the
    story's header elements as `other`)"""
    def st(s):
        d = {k: x for k, x in s.items() if k != "md"}
        d["body"] = [b for b in s["body"] if b["kind"] != "other"]
        return d
    return {"edstart": v["edstart"], "exact": v["exact"], "stories": [st(s) for s in v["stories"]]}


def _chunk(args):
    chunk, seed = args
    import sys
    import logging
    logging.disable(logging.CRITICAL)
    from mosromgr.mostypes import RunningOrder
    logging.disable(logging.CRITICAL)
    out = []
    for vid, v in chunk:
        rng = random.Random("%s|%s" % (seed, vid))
        text = render_view(v, rng)
        with warnings.catch_warnings():
            warnings.simplefilter("ignore")
            ro = RunningOrder.from_string(text)
        seen = project.view_ro_xml(ro.xml)
        if json.dumps(strip_md(seen), sort_keys=True) != json.dumps(strip_md(v), sort_keys=True):
            out.append({"id": vid, "machinery": "view round trip failed: %s vs %s" % (json.dumps(seen)[:300], json.dumps(strip_md(v))[:300])})
            continue
        # naive local times: the process's time zone must not matter
        os.environ["TZ"] = ("Pacific/Kiritimati", "America/St_Johns", "UTC")[len(out) % 3]
        time.tzset()
        obs = observe_twice(ro)
        out.append({"id": vid, "view": seen, "obs": obs, "text": text})
    return out


def big_views():
    """running orders beyond the enumeration: 11, 12 and 25 stories (offsets are sums of ten and more durations, story
    numbers get a second digit), one of them starting ten seconds before midnight"""
    out = []
    feb29 = (59 * 86400 + 86398) * 4            # 2020-02-29T23:59:58
    for n, ed in ((12, [400]), (25, [86390 * 4]), (11, []), (16, [feb29 + 1]), (32, [feb29 + project.ZONE])):
        stories = []
        for i in range(1, n + 1):
            kind = i % 4
            sid = "S%d" % i
            body = [{"kind": "p", "text": [72, 105, 32] + [ord(c) for c in str(i)], "mixed": False, "id": NONE},
                    {"kind": "item", "text": [], "mixed": False, "id": "I1"}]
            stories.append({"id": sid, "slug": "slug " + sid, "md": "payload",
                            "sd": [20 + i] if kind in (0, 1) else [], "tt": [12 + 4 * i] if kind == 2 else ([8] if kind == 3 else []),
                            "mt": [10 + i] if kind == 3 else [], "st": [4001 + 40 * i] if i == 3 else [],       # a quarter past the second
                            "en": [8000 + 40 * i] if i == n - 1 else [],
                            "body": body,
                            "items": [{"id": "I1", "slug": "slug I1", "type": "VIDEO", "object_id": "obj.I1", "mos_id": "mos.x",
                                       "note": "note I1"}]})
        out.append({"edstart": ed, "exact": True, "stories": stories})
    return out


def long_text_views():
    """paragraphs of 1 500 characters: plain, bracketed, padded with every kind of blank"""
    base = [ord(c) for c in ("lorem ipsum \u00e9\u0301 " * 100)][:1500]
    texts = [base, [40] + base + [41], [32, 9, 160, 8201] + base + [10, 13, 32], [60] + base + [62, 32], [40] + base,
             [32] * 1500]
    out = []
    for t in texts:
        body = [{"kind": "p", "text": t, "mixed": False, "id": NONE}, {"kind": "item", "text": [], "mixed": False, "id": "I1"}]
        out.append({"edstart": [], "exact": True, "stories": [
            {"id": "S1", "slug": "slug S1", "md": "payload", "sd": [20], "tt": [], "mt": [], "st": [], "en": [], "body": body,
             "items": [{"id": "I1", "slug": "slug I1", "type": "VIDEO", "object_id": "obj.I1", "mos_id": "mos.x", "note": "note I1"}]}]})
    return out


OBS_CLAUSES = {"obs_total": ("C15",), "obs_agree": ("C15",), "timing": ("C16",), "script_body": ("C17",)}


def run(report, tier, seed, families):
    import multiprocessing
    cov = {"states": 0, "transitions": 0, "traces_validated_against_impl": 0, "samples": [], "exhaustive": True, "tlc": [],
           "views": 0}
    for fam in families:
        res = tlc.run("MC_observe", "MC_observe_%s_%s.cfg" % (fam, tier), "obs-%s-%s" % (report.prop, fam), workers=16,
                      timeout=3000)
        tlc.require_ok(res, "MC_observe " + fam)
        views, seen = [], set()
        for raw in res["lines"].get("VIEW", []):
            if raw not in seen:
                seen.add(raw)
                views.append(json.loads(raw)["view"])
        views.sort(key=lambda v: json.dumps(v, sort_keys=True))
        if fam == "timing":
            views += big_views()
        else:
            views += long_text_views()
        todo = [("%s:%d" % (fam, i), v) for i, v in enumerate(views)]
        chunks = [(todo[i:i + 200], seed) for i in range(0, len(todo), 200)]
        ctx = multiprocessing.get_context("fork")
        with ctx.Pool(16) as pool:
            events = [e for part in pool.map(_chunk, chunks) for e in part]
        for e in events:
            if "machinery" in e:
                report.machinery_error(e["machinery"])
        good = [e for e in events if "machinery" not in e]
        bad, jst = pipeline.judge(good, "obs-%s-%s" % (report.prop, fam), module="Trace_Observe")
        st = res["stats"]
        cov["states"] += st.get("distinct", 0) + jst["states"]
        cov["transitions"] += st.get("generated", 0)
        cov["traces_validated_against_impl"] += jst["judged"]
        cov["views"] += len(views)
        cov["tlc"].append({"family": fam, "cmd": st["cmd"], "wall_s": st["wall_s"], "views": len(views),
                           "theorems": ["Inv_Sums", "Inv_Chain", "Inv_Explicit", "Inv_DurPrecedence", "Inv_Script", "Inv_Concat"]})
        if good:
            e = random.Random(seed).choice(good)
            cov["samples"].append({"id": e["id"], "xml": e["text"][:1500], "obs": e["obs"]})
        byid = {e["id"]: e for e in good}
        for b in bad:
            for clause in b["clauses"]:
                if report.prop in OBS_CLAUSES.get(clause, ()):
                    e = byid[b["id"]]
                    report.failure(clause, b["sig"] + ("/raised=" + ",".join(sorted(set(x.split(":")[-1] for x in b["raised"]))) if b["raised"] else ""),
                                   {"kind": "observe", "id": b["id"], "view": e["view"], "obs": e["obs"], "xml": e["text"], "seed": seed})
    return cov


# ------------------------------------------------------------------------------------------
# the story a roStorySend message exposes (StorySend.story): its script / body against the MESSAGE document
# ------------------------------------------------------------------------------------------
def send_story_view(msg_root):
    """view of the story a roStorySend describes, read directly from the message XML: the children of <storyBody>
    spliced in place, storyItem = item"""
    base = msg_root.find("roStorySend")
    flags = {"exact": False}
    body, items = [], []
    for c in base:
        seq = list(c) if c.tag == "storyBody" else [c]
        for k in seq:
            if k.tag == "p":
                body.append({"kind": "p", "text": [ord(ch) for ch in (k.text or "")], "mixed": len(k) > 0, "id": NONE})
            elif k.tag in ("storyItem", "item") and (c.tag == "storyBody" or k.tag == "item"):
                body.append({"kind": "item", "text": [], "mixed": False, "id": _s(project._txt(k, "itemID"))})
                items.append(project.item_view(k))
            else:
                body.append({"kind": "other", "text": [], "mixed": False, "id": NONE})
    st = {"id": _s(project._txt(base, "storyID")), "slug": _s(project._txt(base, "storySlug")),
          "sd": NIL, "tt": NIL, "mt": NIL, "st": NIL, "en": NIL, "body": body, "items": items}
    return {"edstart": NIL, "exact": False, "numeric": True, "stories": [st]}


def observe_story(st):
    """obs record for one Story object, shaped like a one-story running order (timing is not judged: exact = FALSE)"""
    raised = []

    def get(name, fn, default):
        try:
            return fn()
        except Exception as e:  # noqa: BLE001
            raised.append("%s:%s" % (name, type(e).__name__))
            return default
    script = get("story.script", lambda: [codes(s) for s in st.script], [])
    body = get("story.body", lambda: body_entries(st.body), [])
    items = get("story.items", lambda: [{"id": _s(it.id), "slug": _s(it.slug), "type": _s(it.type),
                                         "object_id": _s(it.object_id), "mos_id": _s(it.mos_id), "note": _s(it.note)}
                                        for it in st.items], [])
    o = {"id": get("story.id", lambda: _s(st.id), NONE), "slug": get("story.slug", lambda: _s(st.slug), NONE),
         "duration": NIL, "offset": NIL, "start": NIL, "end_": NIL, "script": script, "body": body, "items": items}
    return {"raised": raised, "exact": False,
            "ro": {"duration": NIL, "start": NIL, "end_": NIL, "script": script, "body": body}, "stories": [o]}


def run_send(report, tier, seed):
    """every roStorySend of the bounded generator: StorySend.story's script / body / items against the message"""
    from xml.etree import ElementTree
    from .render import Gamma
    from mosromgr.mostypes import MosFile
    b = dict(MaxStories=2, Layouts=["plain"], MaxSrc=1, MaxCarried=1, MaxItems=1, ILayouts=["bare"])
    gen = pipeline.generate("%s-send" % report.prop, ["StorySend"], b, invariants=False)
    msgs, seen = [], set()
    for _, m in gen["cases"]:
        k = json.dumps(m, sort_keys=True)
        if k not in seen:
            seen.add(k)
            msgs.append(m)
    events = []
    msgs = [m for m in msgs if m["bodyPos"] > 0]       # a roStorySend without <storyBody> is not schema-shaped
    for i, m in enumerate(msgs):
        for style in ("pretty", "compact"):
            g = Gamma("%s|send%d" % (seed, i), style=style)
            text = g.msg(m)
            with warnings.catch_warnings():
                warnings.simplefilter("ignore")
                mo = MosFile.from_string(text)
            events.append({"id": "send%d.%s" % (i, style), "view": send_story_view(ElementTree.fromstring(text)),
                           "obs": observe_story(mo.story), "text": text})
    bad, jst = pipeline.judge(events, "obs-send-" + report.prop, module="Trace_Observe")
    byid = {e["id"]: e for e in events}
    for bd in bad:
        for clause in bd["clauses"]:
            if report.prop in OBS_CLAUSES.get(clause, ()):
                e = byid[bd["id"]]
                report.failure(clause, "send:" + bd["sig"], {"kind": "send_story", "id": bd["id"], "xml": e["text"],
                                                             "view": e["view"], "obs": e["obs"], "seed": seed})
    return {"states": gen["stats"].get("distinct", 0) + jst["states"], "transitions": gen["stats"].get("generated", 0),
            "traces_validated_against_impl": jst["judged"], "samples": [{"xml": events[0]["text"][:800], "obs": events[0]["obs"]}] if events else []}
