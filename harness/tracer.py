"""Out-of-tree tracer (binding C): wraps the public transition `RunningOrder.__add__` of the real
library and records one event per call AT RETURN (error path included): projected pre-state,
the message read from its XML, projected post-state, status, mosromgr warning categories,
serialisation-equality flag.  Installed only when MOSROMGR_VERIF=1 (the guard named in
MANIFEST.hooks); nothing in /repo is edited.

Tokens in recorded events are raw content digests ("#...") - the judge only compares tokens for
equality, so no gamma binding is needed for recorded traces."""
import os
import warnings

from . import project


def _shares(a, b):
    try:
        ids = {id(e) for e in a.xml.iter()} | {id(e.attrib) for e in a.xml.iter()}
        return any(id(e) in ids or id(e.attrib) in ids for e in b.xml.iter())
    except Exception:  # noqa: BLE001
        return False


class Tracer:
    def __init__(self):
        self.events = []
        self.installed = False
        self.depth = 0
        self.objs = {}        # id(ro) -> small integer object number
        self.keep = []        # keep traced objects alive so that id() stays unique
        self.seq = 0
        self.prefix = "t"
        self.sink = None      # a warnings.catch_warnings(record=True) list, when the caller records
        self.tee = False      # no caller-provided sink: tap warnings._showwarnmsg_impl during the call instead

    def obj_no(self, ro):
        k = id(ro)
        if k not in self.objs:
            self.objs[k] = len(self.objs) + 1
            self.keep.append(ro)
        return self.objs[k]

    def install(self):
        if self.installed:
            return
        if os.environ.get("MOSROMGR_VERIF") != "1":
            raise RuntimeError("tracer requires MOSROMGR_VERIF=1")
        from mosromgr import mostypes, exc
        tracer = self
        orig = mostypes.RunningOrder.__add__
        self._orig = orig
        self._cls = mostypes.RunningOrder

        def traced_add(ro, other):
            if tracer.depth > 0:
                return orig(ro, other)
            tracer.depth += 1
            err = None
            res = None
            cls = type(other).__name__
            try:
                pre = project.project_ro_xml(ro.xml)
                before = str(ro)
                try:
                    msg = project.project_msg_xml(cls, other.xml)
                except Exception:  # noqa: BLE001 - not a message class we model
                    msg = None
                n0 = len(tracer.sink) if tracer.sink is not None else 0
                tapped = None
                if tracer.sink is None and tracer.tee:
                    # see every mosromgr warning the call emits, whatever recorder / filter the caller has installed:
                    # the recorder still receives them (tee), mosromgr warnings are shown "always" for the duration
                    tapped = []
                    saved_impl = warnings._showwarnmsg_impl
                    saved_filters = warnings.filters[:]

                    def tee(msg, _saved=saved_impl, _t=tapped):
                        _t.append(msg)
                        return _saved(msg)
                    warnings._showwarnmsg_impl = tee
                    warnings.filterwarnings("always", category=exc.MosRoMgrWarning)
                try:
                    res = orig(ro, other)
                    return res
                except BaseException as e:
                    err = e
                    raise
                finally:
                    if tapped is not None:
                        warnings._showwarnmsg_impl = saved_impl
                        warnings.filters[:] = saved_filters
                        warnings._filters_mutated()
                    if msg is not None:
                        target = res if (err is None and isinstance(res, mostypes.RunningOrder)) else ro
                        if err is None:
                            status = "ok" if isinstance(res, mostypes.RunningOrder) else "crash:BadReturn"
                        elif isinstance(err, exc.MosCompletedMergeError):
                            status = "completed_error"
                        elif isinstance(err, exc.MosMergeError):
                            status = "merge_error"
                        elif isinstance(err, exc.MosRoMgrException):
                            status = "lib:" + type(err).__name__
                        else:
                            status = "crash:" + type(err).__name__
                        warns = []
                        if tracer.sink is not None:
                            warns = [w.category.__name__ for w in tracer.sink[n0:]
                                     if issubclass(w.category, exc.MosRoMgrWarning)]
                        elif tapped is not None:
                            warns = [w.category.__name__ for w in tapped if issubclass(w.category, exc.MosRoMgrWarning)]
                        tracer.seq += 1
                        try:
                            mid = other.message_id
                        except Exception:  # noqa: BLE001
                            mid = -1
                        tracer.events.append({
                            "id": "%s%d" % (tracer.prefix, tracer.seq), "obj": tracer.obj_no(target), "k": "merge",
                            "pre": pre, "msg": msg, "post": project.project_ro_xml(target.xml),
                            "status": status, "warns": warns, "ser_eq": str(ro) == before,
                            "intact": True, "cls": "", "completed_eq": True, "acc_eq": True, "expose_intact": True, "mid": mid,
                            "unshared": not _shares(target, other),
                            "completed_acc": bool(target.completed),
                            "has_sink": tracer.sink is not None or tapped is not None})
            finally:
                tracer.depth -= 1

        mostypes.RunningOrder.__add__ = traced_add
        self.installed = True

    def uninstall(self):
        if self.installed:
            self._cls.__add__ = self._orig
            self.installed = False

    def take(self):
        ev, self.events = self.events, []
        return ev
