"""C08 (and the classification half of C12): documents enumerated by spec/MosClassify.tla are rendered,
classified by the real library from a str, from bytes and from a file, under warning filters
"default" and "error" (in-process and in a fresh `python -W error` interpreter), and the recorded
outcomes are judged by TLC (spec/Trace_Classify.tla)."""
import json
import os
import random
import subprocess
import sys
import tempfile
import warnings

from . import pipeline, tlc

NONE = "~"


def render_doc(d, rng):
    pretty = rng.random() < 0.5
    nl = "\n  " if pretty else ""

    def payload(tag):
        inner = "<roID>RO1</roID><roSlug>caf\u00e9 \u00fcber</roSlug>"
        if tag in ("roCreate", "roReplace"):
            inner += "<roSlug>slug &amp; co</roSlug><story><storyID>S1</storyID><item><itemID>I1</itemID></item></story>"
        elif tag == "roStorySend":
            inner += "<storyID>S1</storyID><storyBody><p>text</p></storyBody>"
        elif tag in ("roStoryAppend", "roStoryInsert", "roStoryReplace"):
            inner += "<storyID>S1</storyID><story><storyID>N1</storyID></story>"
        elif tag in ("roStoryDelete", "roStoryMove"):
            inner += "<storyID>S1</storyID><storyID>S2</storyID>"
        elif tag.startswith("roItem"):
            inner += "<storyID>S1</storyID><itemID>I1</itemID><item><itemID>J1</itemID></item>"
        elif tag == "roMetadataReplace":
            inner += "<roSlug>new</roSlug>"
        elif tag == "roReadyToAir":
            inner += "<roAir>READY</roAir>"
        return inner

    def kid(k):
        tag = k["tag"]
        if k["nest"] != NONE:
            return "<%s><%s>%s</%s></%s>" % (tag, k["nest"], payload(k["nest"]), k["nest"], tag)
        if tag == "roElementAction":
            attr = "" if k["op"] == NONE else ' operation="%s"' % k["op"]
            if k["childless"]:
                return "<roElementAction%s/>" % attr
            parts = ["<roID>RO1</roID>"]
            t = k["tgt"]
            if t == "empty":
                parts.append("<element_target/>")
            elif t == "story":
                parts.append("<element_target><storyID>S1</storyID></element_target>")
            elif t == "storyitem":
                parts.append("<element_target><storyID>S1</storyID><itemID>I1</itemID></element_target>")
            elif t == "storyitemblank":
                parts.append("<element_target><storyID>S1</storyID><itemID/></element_target>")
            s = k["src"]
            src = {"empty": "<element_source/>",
                   "storyID": "<element_source><storyID>S2</storyID><storyID>S3</storyID></element_source>",
                   "itemID": "<element_source><itemID>I2</itemID></element_source>",
                   "itemIDblank": "<element_source><itemID>I2</itemID><itemID></itemID></element_source>"
                   if rng.random() < 0.5 else "<element_source><itemID/></element_source>",
                   "item": "<element_source><item><itemID>J1</itemID><itemSlug>x</itemSlug></item></element_source>",
                   "story": "<element_source><story><storyID>N1</storyID><item><itemID>I1</itemID></item></story></element_source>",
                   }.get(s)
            if src:
                parts.append(src)
            if rng.random() < 0.4:          # sibling order inside the message element must not matter either
                rng.shuffle(parts)
            # repeated blocks come after the first of their kind
            t2 = {"story": "<element_target><storyID>S4</storyID></element_target>",
                  "storyitem": "<element_target><storyID>S4</storyID><itemID>I4</itemID></element_target>"}.get(k.get("tgt2"))
            s2 = {"storyID": "<element_source><storyID>S5</storyID></element_source>",
                  "itemID": "<element_source><itemID>I5</itemID></element_source>"}.get(k.get("src2"))
            parts += [x for x in (t2, s2) if x]
            return "<roElementAction%s>%s</roElementAction>" % (attr, nl.join(parts))
        if tag.startswith("{urn:verif}"):          # the same element name in a namespace (prefixed, or as default namespace)
            local = tag.split("}")[1]
            attr = ' operation="MOVE"' if local == "roElementAction" else ""
            inner = payload(local) if local != "roElementAction" else \
                "<roID>RO1</roID><element_target><storyID>S1</storyID></element_target><element_source><storyID>S2</storyID></element_source>"
            if rng.random() < 0.5:
                return '<v:%s xmlns:v="urn:verif"%s>%s</v:%s>' % (local, attr, inner, local)
            return '<%s xmlns="urn:verif"%s>%s</%s>' % (local, attr, inner, local)
        if tag in ("mosID", "ncsID", "aaa", "zzz"):
            return "<%s>some %s text</%s>" % (tag, tag, tag)
        if tag == "messageID":
            return "<messageID>%d</messageID>" % rng.randint(1, 99999)
        if k["childless"]:
            return "<%s/>" % tag
        return "<%s>%s</%s>" % (tag, payload(tag), tag)

    parts = [kid(k) for k in d["kids"]]
    # content that must not matter: comments, processing instructions, CDATA sections (also ones that mention message tags)
    noise = ["<!-- roCreate roDelete <roElementAction operation='MOVE'/> -->", "<?mos-hint roStorySend?>",
             "<mosNote><![CDATA[<roCreate><roID>x</roID></roCreate> & more]]></mosNote>"]
    for n in noise:
        if rng.random() < 0.35:
            parts.insert(rng.randint(0, len(parts)), n)
    body = "<%s>%s%s%s</%s>" % (d["root"], nl, nl.join(parts), "\n" if pretty else "", d["root"])
    if rng.random() < 0.3:
        body = "<!-- leading comment -->" + body
    if rng.random() < 0.3:
        body = '<?xml version="1.0" encoding="UTF-8"?>\n' + body
    wf = d["wf"]
    if wf == "ok":
        return body
    if wf == "truncated":
        return body[: max(5, int(len(body) * 0.6))]
    if wf == "garbled":
        return body.replace("</%s>" % d["root"], "</oops>")
    if wf == "empty":
        return ""
    if wf == "blank":
        return "  \n\t "
    # characters Python calls white space but XML does not allow outside the root element
    if wf == "trailff":
        return body + "\x0c"
    if wf == "trailnbsp":
        return body + "\u00a0"
    if wf == "traills":
        return body + "\n\u2028\x1f"
    if wf == "leadnbsp":
        return "\u00a0" + body
    return "this is not XML at all & never was"


DRIVER = r'''
import sys, json, logging, warnings, tempfile, os
logging.disable(logging.CRITICAL)
from mosromgr.mostypes import MosFile
from mosromgr import exc
logging.disable(logging.CRITICAL)
def outcome(fn):
    try:
        return type(fn()).__name__
    except exc.MosRoMgrException as e:
        return type(e).__name__
    except BaseException as e:
        return "crash:" + type(e).__name__
docs = json.load(sys.stdin)
out = {}
for i, text in docs:
    out[i] = outcome(lambda: MosFile.from_string(text))
json.dump(out, sys.stdout)
'''


def classify_all(docs, seed):
    """docs: list of (id, abstract doc).  Returns events for the judge."""
    import logging
    logging.disable(logging.CRITICAL)
    from mosromgr.mostypes import MosFile
    from mosromgr import exc
    logging.disable(logging.CRITICAL)

    def outcome(fn, filt):
        with warnings.catch_warnings(record=(filt != "error")):
            warnings.simplefilter("error" if filt == "error" else "always")
            try:
                return type(fn()).__name__
            except exc.MosRoMgrException as e:
                return type(e).__name__
            except BaseException as e:  # noqa: BLE001
                return "crash:" + type(e).__name__

    texts = {}
    events = []
    tmpdir = tempfile.mkdtemp(prefix="verif-classify-", dir=tlc.workdir("classify-tmp", clean=False))
    path = os.path.join(tmpdir, "doc.mos.xml")
    for did, d in docs:
        rng = random.Random("%s|%s" % (seed, did))
        text = render_doc(d, rng)
        texts[did] = text
        outs = []
        for filt in ("default", "error"):
            outs.append({"via": "str", "filt": filt, "result": outcome(lambda: MosFile.from_string(text), filt)})
            # bytes and files sometimes start with a UTF-8 byte-order mark
            bom = b"\xef\xbb\xbf" if (d["wf"] == "ok" and rng.random() < 0.4) else b""
            outs.append({"via": "bytes", "filt": filt,
                         "result": outcome(lambda: MosFile.from_string(bom + text.encode("utf-8")), filt)})
            with open(path, "wb") as f:
                f.write(bom + text.encode("utf-8"))
            outs.append({"via": "file", "filt": filt, "result": outcome(lambda: MosFile.from_file(path), filt)})
            if d["wf"] == "ok" and not text.startswith("<?xml") and filt == "default":
                # the same document in other encodings (declared, as XML requires): a file or bytes are decoded by the parser
                for enc, decl in (("iso-8859-1", '<?xml version="1.0" encoding="ISO-8859-1"?>'), ("utf-16", "")):
                    try:
                        data = (decl + text).encode(enc)
                    except UnicodeEncodeError:
                        continue
                    with open(path, "wb") as f:
                        f.write(data)
                    outs.append({"via": "file-" + enc, "filt": filt, "result": outcome(lambda: MosFile.from_file(path), filt)})
                    outs.append({"via": "bytes-" + enc, "filt": filt, "result": outcome(lambda: MosFile.from_string(data), filt)})
        events.append({"id": did, "doc": d, "outcomes": outs})
    os.remove(path) if os.path.exists(path) else None
    os.rmdir(tmpdir)
    # fresh interpreter with -W error: the filter is really the interpreter's configuration
    p = subprocess.run(["/venv/bin/python", "-W", "error", "-c", DRIVER], input=json.dumps(list(texts.items())),
                       capture_output=True, text=True, timeout=600)
    if p.returncode != 0:
        raise tlc.TlcError("classification subprocess failed: " + p.stderr[-2000:])
    sub = json.loads(p.stdout)
    for e in events:
        e["outcomes"].append({"via": "subprocess", "filt": "error", "result": sub[e["id"]]})
    return events, texts


def run(report, tier, seed, want_clauses):
    cfg = "MC_classify_%s.cfg" % tier
    res = tlc.run("MC_classify", cfg, "classify-" + report.prop, workers=16, coverage=False, timeout=1800)
    tlc.require_ok(res, "MosClassify")
    docs = []
    seen = set()
    for raw in res["lines"].get("DOC", []):
        if raw not in seen:
            seen.add(raw)
            docs.append(json.loads(raw)["doc"])
    docs.sort(key=lambda d: json.dumps(d, sort_keys=True))
    docs = [("doc:%d" % i, d) for i, d in enumerate(docs)]
    events, texts = classify_all(docs, seed)
    # the judge's cfg must not depend on the tier: Thorough only affects the generator sets
    bad, jst = pipeline.judge(events, "classify-" + report.prop, module="Trace_Classify")
    byid = {e["id"]: e for e in events}
    results = {}
    for e in events:
        for o in e["outcomes"]:
            results[o["result"]] = results.get(o["result"], 0) + 1
    for b in bad:
        for clause in b["clauses"]:
            if clause not in want_clauses:
                continue
            ev = byid[b["id"]]
            report.failure(clause, b["sig"],
                           {"kind": "classify", "id": b["id"], "doc": ev["doc"], "text": texts[b["id"]],
                            "outcomes": ev["outcomes"], "seed": seed})
    st = res["stats"]
    rnd = random.Random(seed)
    cov = {"states": st.get("distinct", 0) + jst["states"], "transitions": st.get("generated", 0),
           "traces_validated_against_impl": jst["judged"], "exhaustive": True,
           "samples": [{"doc": e["doc"], "text": texts[e["id"]], "outcomes": e["outcomes"]}
                       for e in rnd.sample(events, min(2, len(events)))],
           "documents": len(docs), "classifications": sum(len(e["outcomes"]) for e in events),
           "result_counts": results,
           "tlc": [{"cmd": st["cmd"], "wall_s": st["wall_s"], "theorems": ["Inv_Total", "Inv_OnlyMsgElem", "Inv_TagTable"]}]}
    return cov
