"""C20: every message of the bounded generators is parsed by the real library; the documented
accessors (target story / item, source lists, carried stories / items) and inspect() are
exercised, and TLC (spec/Trace_Expose.tla) judges what they exposed against MosExpose."""
import contextlib
import io
import json
import random
import warnings
from xml.etree import ElementTree

from . import pipeline, project, tlc
from .render import Gamma

NONE = "~"
NA = "n/a"

ACC = {
    "StorySend": dict(tstory=lambda m: m.story, carried=lambda m: [m.story]),
    "StoryAppend": dict(carried=lambda m: m.stories),
    "StoryDelete": dict(sources=lambda m: m.stories),
    "StoryInsert": dict(tstory=lambda m: m.target_story, carried=lambda m: m.source_stories),
    "StoryMove": dict(tstory=lambda m: m.target_story, sources=lambda m: [m.source_story]),
    "StoryReplace": dict(tstory=lambda m: m.story, carried=lambda m: m.stories),
    "ItemDelete": dict(tstory=lambda m: m.story, sources=lambda m: m.items),
    "ItemInsert": dict(tstory=lambda m: m.story, titem=lambda m: m.item, carried=lambda m: m.items),
    "ItemMoveMultiple": dict(tstory=lambda m: m.story, titem=lambda m: m.item, sources=lambda m: m.items),
    "ItemReplace": dict(tstory=lambda m: m.story, titem=lambda m: m.item, carried=lambda m: m.items),
    "EAStoryReplace": dict(tstory=lambda m: m.story, carried=lambda m: m.stories),
    "EAItemReplace": dict(tstory=lambda m: m.story, titem=lambda m: m.item, carried=lambda m: m.items),
    "EAStoryDelete": dict(sources=lambda m: m.stories),
    "EAItemDelete": dict(tstory=lambda m: m.story, sources=lambda m: m.items),
    "EAStoryInsert": dict(tstory=lambda m: m.story, carried=lambda m: m.stories),
    "EAItemInsert": dict(tstory=lambda m: m.story, titem=lambda m: m.item, carried=lambda m: m.items),
    "EAStorySwap": dict(sources=lambda m: list(m.stories)),
    "EAItemSwap": dict(tstory=lambda m: m.story, sources=lambda m: list(m.items)),
    "EAStoryMove": dict(tstory=lambda m: m.story, sources=lambda m: m.stories),
    "EAItemMove": dict(tstory=lambda m: m.story, titem=lambda m: m.item, sources=lambda m: m.items),
}


def el_id(e):
    if e is None:
        return NONE
    i = e.id
    return NONE if i is None else i


def exposure(m, cls):
    """what a live message object exposes right now (raw digests); used to detect that later merges change it"""
    from mosromgr.moselements import Story
    acc = ACC.get(cls, {})
    out = {}
    for name in ("tstory", "titem"):
        if name in acc:
            try:
                out[name] = el_id(acc[name](m))
            except Exception as e:  # noqa: BLE001
                out[name] = "raised:" + type(e).__name__
    for name in ("sources", "carried"):
        if name in acc:
            try:
                out[name] = [(el_id(e), project.story(e.xml) if isinstance(e, Story) else project.leaf(e.xml))
                             for e in acc[name](m)]
            except Exception as e:  # noqa: BLE001
                out[name] = "raised:" + type(e).__name__
    return out


def observe_msg(mid, mabs, seed):
    import sys
    from mosromgr.mostypes import MosFile
    from mosromgr.moselements import Story
    g = Gamma("%s|%s" % (seed, mid))
    g.str_decl = True
    text = g.msg(mabs)
    table = {}
    proj = project.project_msg_xml(mabs["cls"], ElementTree.fromstring(text))
    if not project.bind(mabs, proj, table):
        return {"id": mid, "machinery": "gamma/alpha round trip failed for message %s" % mid}
    obs = {"tstory": NA, "titem": NA, "sources": [], "carried": [], "raised": [], "inspect_ok": True, "mentions": True,
           "style": "pretty" if g.pretty else "compact"}
    with warnings.catch_warnings():
        warnings.simplefilter("ignore")
        try:
            m = MosFile.from_string(text)
        except Exception as e:  # noqa: BLE001
            obs["raised"].append("classify:" + type(e).__name__)
            return {"id": mid, "msg": mabs, "obs": obs, "text": text}
        if type(m).__name__ != mabs["cls"]:
            obs["raised"].append("misclassified:" + type(m).__name__)
        acc = ACC.get(mabs["cls"], {})

        def get(name, fn, default):
            try:
                return fn()
            except Exception as e:  # noqa: BLE001
                obs["raised"].append("%s:%s" % (name, type(e).__name__))
                return default
        if "tstory" in acc:
            obs["tstory"] = get("tstory", lambda: el_id(acc["tstory"](m)), NA)
        if "titem" in acc:
            obs["titem"] = get("titem", lambda: el_id(acc["titem"](m)), NA)
        if "sources" in acc:
            obs["sources"] = get("sources", lambda: [el_id(e) for e in acc["sources"](m)], [])
        if "carried" in acc:
            def carried():
                out = []
                for e in acc["carried"](m):
                    n = project.story(e.xml) if isinstance(e, Story) else project.leaf(e.xml)
                    out.append(project.rename(n, table))
                    e.id, e.slug, repr(e)
                return out
            obs["carried"] = get("carried", carried, [])
        before_text, before_exp = str(m), exposure(m, mabs["cls"])
        buf = io.StringIO()
        try:
            with contextlib.redirect_stdout(buf):
                m.inspect()
        except Exception as e:  # noqa: BLE001
            obs["inspect_ok"] = False
            obs["inspect_error"] = type(e).__name__
        # printing an outline must not change the message: same serialisation, same exposure, accessors still work
        if str(m) != before_text or exposure(m, mabs["cls"]) != before_exp:
            obs["inspect_ok"] = False
            obs["inspect_error"] = "inspect() changed the message"
        if mabs["cls"] == "RunningOrderReplace":
            try:
                m.stories, m.start_time, m.duration
            except Exception as e:  # noqa: BLE001
                obs["inspect_ok"] = False
                obs["inspect_error"] = "accessors raise after inspect(): " + type(e).__name__
        out = buf.getvalue()
        named = [s for s in obs["sources"] if s != NONE] + [c["id"] for c in obs["carried"] if c["id"] != NONE]
        obs["mentions"] = all(n in out for n in named)
        get("repr", lambda: (repr(m), m.message_id, m.ro_id if mabs["cls"] != "RunningOrderEnd" or True else None), None)
    return {"id": mid, "msg": mabs, "obs": obs, "text": text, "inspect": out[:400]}


def _chunk(args):
    chunk, seed = args
    import logging
    logging.disable(logging.CRITICAL)
    return [observe_msg(mid, m, seed) for mid, m in chunk]


def run(report, tier, seed):
    import multiprocessing
    from .checks import fam
    msgs, seen = [], set()
    cov = {"states": 0, "transitions": 0, "traces_validated_against_impl": 0, "samples": [], "exhaustive": True, "tlc": []}
    for name, classes, bound, _ in fam(tier, story=pipeline.STORY, item=pipeline.ITEM, other=pipeline.OTHER):
        b = dict(bound)
        b.update(MaxStories=2, Layouts=["plain"], MaxItems=2, ILayouts=["bare"])   # messages, not states, matter here
        gen = pipeline.generate("%s-expose-%s" % (report.prop, name), classes, b, coverage=False, invariants=False)
        cov["states"] += gen["stats"].get("distinct", 0)
        cov["transitions"] += gen["stats"].get("generated", 0)
        cov["tlc"].append({"family": name, "cmd": gen["stats"]["cmd"], "wall_s": gen["stats"]["wall_s"]})
        for _, m in gen["cases"]:
            k = json.dumps(m, sort_keys=True)
            if k not in seen:
                seen.add(k)
                msgs.append(m)
    todo = [("m%d" % i, m) for i, m in enumerate(msgs)]
    chunks = [(todo[i:i + 200], seed) for i in range(0, len(todo), 200)]
    ctx = multiprocessing.get_context("fork")
    with ctx.Pool(16) as pool:
        events = [e for part in pool.map(_chunk, chunks) for e in part]
    for e in events:
        if "machinery" in e:
            report.machinery_error(e["machinery"])
    good = [e for e in events if "machinery" not in e]
    bad, jst = pipeline.judge([{k: v for k, v in e.items() if k in ("id", "msg", "obs")} for e in good],
                              "expose-" + report.prop, module="Trace_Expose")
    cov["states"] += jst["states"]
    cov["traces_validated_against_impl"] = jst["judged"]
    cov["messages"] = len(msgs)
    per = {}
    for e in good:
        per[e["msg"]["cls"]] = per.get(e["msg"]["cls"], 0) + 1
    cov["per_class"] = per
    for e in random.Random(seed).sample(good, min(2, len(good))):
        cov["samples"].append({"msg_xml": e["text"][:1200], "obs": e["obs"], "inspect": e.get("inspect")})
    byid = {e["id"]: e for e in good}
    for b in bad:
        for clause in b["clauses"]:
            e = byid[b["id"]]
            report.failure(clause, b["sig"], {"kind": "expose", "id": b["id"], "msg": e["msg"], "obs": e["obs"],
                                             "xml": e["text"], "inspect": e.get("inspect"), "seed": seed})
    return cov
