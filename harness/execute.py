"""Driving the real mosromgr code along specification transitions (binding A) and recording what
it did as events for the TLA+ judge (spec/Trace_Merge.tla)."""
import io
import logging
import os
import sys
import warnings
from xml.etree import ElementTree

logging.disable(logging.CRITICAL)

from mosromgr import mostypes  # noqa: E402
from mosromgr.mostypes import MosFile, RunningOrder  # noqa: E402
from mosromgr import exc  # noqa: E402

from . import project  # noqa: E402
from .render import Gamma  # noqa: E402

logging.disable(logging.CRITICAL)


class Machinery(Exception):
    """the harness itself is inconsistent (gamma/alpha round trip failed)"""


def classify_status(e):
    if e is None:
        return "ok"
    if isinstance(e, exc.MosCompletedMergeError):
        return "completed_error"
    if isinstance(e, exc.MosMergeError):
        return "merge_error"
    if isinstance(e, exc.MosRoMgrException):
        return "lib:" + type(e).__name__
    return "crash:" + type(e).__name__


def moswarn_names(wlist):
    return [w.category.__name__ for w in wlist if issubclass(w.category, exc.MosRoMgrWarning)]


def add(ro, m, direct=False):
    """`ro + m` with warnings recorded; returns (result_or_None, status, warn categories).  direct: the message's documented
    merge(ro) method is called instead of the operator (only on a running order that is not completed: the refusal of
    further messages is the operator's)"""
    with warnings.catch_warnings(record=True) as w:
        warnings.simplefilter("always")
        err = None
        res = None
        try:
            if direct and not completed_of(ro):
                str(ro)                    # (a serialisation taken earlier must not be remembered)
                res = m.merge(ro)
                res = ro if res is None else res
            else:
                res = ro + m
        except Exception as e:  # noqa: BLE001 - the point is to see every exception type
            err = e
    return res, classify_status(err), moswarn_names(w), err


def shares(a, b):
    """some Element object is reachable from both trees (spec/MosAlias.tla: NoSharedNodes, on the real heap)"""
    try:
        ids = {id(e) for e in a.xml.iter()} | {id(e.attrib) for e in a.xml.iter()}
        return any(id(e) in ids or id(e.attrib) in ids for e in b.xml.iter())
    except Exception:  # noqa: BLE001
        return False


def parse_event(case_id, which):
    """the library read a document differently from the reference parser (ElementTree): nothing after that can be
    trusted, so the case is reported as one event of kind "parse" (clause parse_faithful_ro / parse_faithful_msg)"""
    return {"id": case_id, "obj": 0, "k": "parse", "pre": {"root": [], "kids": []}, "post": {"root": [], "kids": []},
            "msg": project.empty_msg("none"), "status": which, "warns": [], "ser_eq": True, "intact": True, "cls": "",
            "completed_eq": True, "acc_eq": True, "expose_intact": True, "unshared": True, "completed_acc": False}


def same_reading(obj, text):
    """the library's tree for `text` is what ElementTree reads from it"""
    try:
        return project.canon(obj.xml) == project.canon(ElementTree.fromstring(text)) and obj.xml.tag == ElementTree.fromstring(text).tag
    except Exception:  # noqa: BLE001
        return False


def completed_of(ro):
    """what the accessor ro.completed reports (False when it raises: never equal to a completed document)"""
    try:
        return bool(ro.completed)
    except Exception:  # noqa: BLE001
        return False


def parse_ro(text):
    with warnings.catch_warnings():
        warnings.simplefilter("ignore")
        return RunningOrder.from_string(text)


def parse_msg(text):
    with warnings.catch_warnings():
        warnings.simplefilter("ignore")
        return MosFile.from_string(text)


def run_case(case_id, pre_abs, msg_abs, seed, keep_xml=False):
    """one spec transition against the real code -> event dict for the judge"""
    g = Gamma("%s|%s" % (seed, case_id))
    g.str_decl = True
    g.omit_item_id = True
    # the same case, with its ids written in one of several styles (prefix-related, markup characters, case-only
    # differences, inner blanks, long): a bijection on ids, so the specification's verdict is unaffected
    from .render import ID_STYLES, id_style_map, restyle
    style = g.rng("idstyle").choice(ID_STYLES)
    if style != "plain":
        f = id_style_map(style)
        pre_abs, msg_abs = restyle(pre_abs, f), restyle(msg_abs, f)
        g.idf = f
    from .render import ROID_STYLES, restyle_roid
    new_roid = g.rng("roidstyle").choice(ROID_STYLES)
    if new_roid:
        pre_abs, msg_abs = restyle_roid(pre_abs, new_roid), restyle_roid(msg_abs, new_roid)
        g.roid = lambda x: new_roid if x == "RO1" else x
    ro_xml = g.ro(pre_abs)
    # a completed running order refuses every message whatever it carries: there the message id may be unusable
    msg_xml = g.msg(msg_abs, loose_mid=any(c["tag"] == "mosromgrmeta" for c in pre_abs["root"]))
    table = {}
    # bind token names to the digests of what was actually rendered
    try:
        ro = parse_ro(ro_xml)
    except Exception:  # noqa: BLE001 - the reference parser reads this text (it was rendered from a tree)
        return parse_event(case_id, "ro")
    completed_of(ro)            # read the flag before the merge as well: it must not be remembered
    pre_proj = project.project_ro(ro)
    if not same_reading(ro, ro_xml):
        return parse_event(case_id, "ro")
    if not project.bind(pre_abs, pre_proj, table):
        raise Machinery("gamma/alpha round trip failed for running order of case %s" % case_id)
    msg_root = ElementTree.fromstring(msg_xml)
    msg_proj = project.project_msg_xml(msg_abs["cls"], msg_root)
    if not project.bind(msg_abs, msg_proj, table):
        raise Machinery("gamma/alpha round trip failed for message of case %s: %r vs %r" % (case_id, msg_abs, msg_proj))
    ev = {"id": case_id, "obj": 0, "k": "merge", "pre": pre_abs, "msg": msg_abs,
          "intact": True, "cls": "", "completed_eq": True, "acc_eq": True, "expose_intact": True, "unshared": True}
    try:
        m = parse_msg(msg_xml)
        cls_seen = type(m).__name__
    except Exception as e:  # classification failed: the step cannot even start
        if type(e).__name__ == "MosInvalidXML":      # ... but the text is well-formed: the reference parser has read it
            return parse_event(case_id, "msg")
        ev.update(post=pre_abs, status=("unclassified" if isinstance(e, exc.MosRoMgrException) else "crash:" + type(e).__name__), warns=[], ser_eq=True, completed_acc=completed_of(ro))
        if keep_xml:
            ev["xml"] = {"ro": ro_xml, "msg": msg_xml}
        return ev
    if not same_reading(m, msg_xml):
        return parse_event(case_id, "msg")
    before = str(ro)
    msg_text0 = str(m)
    res, status, warns, err = add(ro, m, direct=g.rng("direct").random() < 0.2)
    # (a message classified as another class than its shape says is C08's business: the step is judged as it went)
    target = res if (status == "ok" and isinstance(res, RunningOrder)) else ro
    if status == "ok" and not isinstance(res, RunningOrder):
        status = "crash:BadReturn"
    post = project.rename(project.project_ro(target), table)
    ev.update(post=post, status=status, warns=warns, ser_eq=(str(ro) == before), completed_acc=completed_of(target),
              intact=(str(m) == msg_text0), unshared=not shares(target, m))
    if keep_xml:
        ev["xml"] = {"ro": ro_xml, "msg": msg_xml, "after": str(target),
                     "error": repr(err) if err is not None else None}
    return ev
