"""C09 / C10 / C11 / C18 (collections, sources, readers): every collection enumerated by
spec/MC_coll.tla is built through the real constructors (strings, files, fake S3), validated and
merged; each `ro += msg` inside mc.merge() is recorded by the tracer and judged by Trace_Merge,
and the run as a whole is judged by Trace_Coll against MosCollection!Accepts / Expected."""
import copy
import io
import json
import logging
import os
import pathlib
import random
import shutil
import subprocess
import sys
import tempfile
import warnings

from . import pipeline, project, tlc
from .render import Gamma

NONE = "~"

BASE_SHAPE = None


def node(tag, nid, tok, kids=None):
    return {"tag": tag, "id": nid, "tok": tok, "kids": kids or []}


def story_node(sid):
    return node("story", sid, NONE, [node("storyID", sid, "="), node("storySlug", NONE, "x:slug." + sid),
                                     node("mosExternalMetadata", "sch.time", "tm:" + sid),
                                     node("item", "I1", "x:item.%s.I1" % sid), node("p", NONE, "x:p.%s" % sid)])


def ro_shape(mid, roid, done=False, late_mid=False):
    """done: the document already carries a completion record; late_mid: <messageID> follows the message element"""
    root = [node("mosID", NONE, "x:mosID"), node("ncsID", NONE, "x:ncsID"),
            node("messageID", str(mid), "="), node("roCreate", NONE, NONE)]
    if late_mid:
        root = [root[0], root[1], root[3], root[2]]
    if done:
        root.append(node("mosromgrmeta", NONE, NONE, [node("roDelete", NONE, "x:roDelete.earlier")]))
    return {"root": root,
            "kids": [node("roID", roid, "="), node("roSlug", NONE, "x:roSlug"), node("roEdStart", NONE, "ed:0"),
                     story_node("S1"), story_node("S2")]}


def abstract_msg(kind, mid, quiet=False):
    if kind == "ok" and quiet:      # a message that applies without changing anything: still one step of the fold, and
        return project.empty_msg("ReadyToAir")          # still refused by a completed running order
    m = project.empty_msg({"ok": "StoryAppend", "ok2": "StoryAppend", "warn": "StoryDelete", "warn2": "StoryDelete", "fail": "StoryReplace",
                           "roDelete": "RunningOrderEnd", "roReplace": "RunningOrderReplace"}[kind])
    if kind == "ok":
        m["carried"] = [story_node("N%d" % mid)]
    elif kind == "ok2":       # a second message that may carry the same message id: the order of the two shows
        m["carried"] = [story_node("M%d" % mid)]
    elif kind == "warn":
        m["ids"] = [{"shape": "id", "id": "SU"}]
    elif kind == "warn2":
        m["ids"] = [{"shape": "id", "id": "SU"}, {"shape": "id", "id": "SV"}]
    elif kind == "fail":
        m["story"] = {"shape": "id", "id": "SU"}
        m["carried"] = [story_node("N%d" % mid)]
    elif kind == "roReplace":
        m["carried"] = [node("roID", "RO1", "="), node("roSlug", NONE, "x:replSlug"), story_node("R1"), story_node("R2")]
    else:
        m["carried"] = [node("roDelete", NONE, "x:roDelete")]
    return m


# The message IDs of the model are small naturals; what the documents carry is their image under a strictly increasing
# map (gamma), so that the numeric order is the model's order whatever the digit count or sign, and what the code
# reports is mapped back (alpha) before TLC judges it.
MID_STYLES = {"plain": lambda m: m,
              "neg": lambda m: m - 12,              # negative ids, zero, positive ids
              "big": lambda m: m + 2 ** 53,         # 16 digits: neighbours are not distinct as floats
              "wide": lambda m: m + 10 ** 10,       # 11 digits: beyond 32 bits
              "huge": lambda m: m * 8 + 2 ** 62}    # 19 digits, 8 apart: neighbours are one double
UNKNOWN_MID = -7


def mid_style(seed, cid):
    return random.Random("%s|%s|midstyle" % (seed, cid)).choice(["plain", "plain", "neg", "big", "wide", "huge"])


def mid_maps(docs, style):
    f = MID_STYLES[style]
    inv = {f(d["mid"]): d["mid"] for d in docs}
    return f, (lambda x: inv.get(x, UNKNOWN_MID))


def render_docs(docs, seed, cid, style="plain"):
    g = Gamma("%s|%s" % (seed, cid))
    f = MID_STYLES[style]
    r = random.Random("%s|%s|roid" % (seed, cid))
    # the two running-order ids of the model ("RO1" and "RO1 ": another id) in spellings that differ by a trailing blank,
    # by case only, or by Unicode normalisation only
    ro_ids = r.choice([{}, {}, {"RO1": "Ro-1", "RO1 ": "RO-1"}, {"RO1": "caf\u00e9", "RO1 ": "cafe\u0301"},
                       {"RO1": "RO\u00a01", "RO1 ": "RO 1"}])
    late = r.random() < 0.3
    g.roid = lambda x: ro_ids.get(x, x)          # also spells the roID inside a <roDelete>
    texts = []
    for d in docs:
        if d["kind"] in ("roCreate", "roCreateDone"):
            texts.append(g.ro(ro_shape(f(d["mid"]), g.roid(d["roid"]), done=d["kind"] == "roCreateDone", late_mid=late)))
        else:
            quiet = random.Random("%s|%s|quiet|%s" % (seed, cid, d["mid"])).random() < 0.25
            texts.append(g.msg(abstract_msg(d["kind"], d["mid"], quiet), message_id=f(d["mid"]), ro_id=d["roid"], late_mid=late))
    return texts


def encode_doc(text, enc):
    """the document in another encoding, with the declaration / byte-order mark XML requires and one character that
    is not valid UTF-8 in that encoding; falls back to UTF-16 when ISO-8859-1 cannot express the content"""
    body = text.split("?>", 1)[1] if text.startswith("<?xml") else text
    if enc == "iso-8859-1":
        try:
            return ('<?xml version="1.0" encoding="ISO-8859-1"?>' + body + "<!--\xe9-->").encode("iso-8859-1")
        except UnicodeEncodeError:
            enc = "utf-16"
    if enc == "utf-16":
        return (body + "<!--\xe9-->").encode("utf-16")
    return text


def encode_docs(texts, seed, cid):
    r = random.Random("%s|%s|enc" % (seed, cid))
    return [encode_doc(t, r.choice(["utf-8", "utf-8", "utf-8", "iso-8859-1", "utf-16"])) for t in texts]


# ------------------------------------------------------------------------------------------
# fake S3 (shaped like boto3's paginator pages and Object().get() responses)
# ------------------------------------------------------------------------------------------
class FakeBody:
    def __init__(self, data):
        self.data = data

    def read(self):
        return self.data


class FakeS3:
    """bucket name -> {key: bytes}; listing in pages of `page_size` keys, in key order"""

    def __init__(self, buckets, page_size=2, explicit_pages=None):
        self.buckets = buckets
        self.page_size = page_size
        self.explicit_pages = explicit_pages
        self.calls = []

    # client side
    def get_paginator(self, name):
        assert name == "list_objects"
        return self

    def paginate(self, Bucket, Prefix=""):
        self.calls.append(("paginate", Bucket, Prefix))
        if self.explicit_pages is not None:
            for page in self.explicit_pages:
                keys = [k for k in page if k.startswith(Prefix)]
                yield {"Contents": [{"Key": k} for k in keys]} if keys or page else {"IsTruncated": False}
            return
        keys = sorted(k for k in self.buckets.get(Bucket, {}) if k.startswith(Prefix))
        if not keys:
            yield {"IsTruncated": False}            # boto3: no "Contents" key for an empty listing
            return
        for i in range(0, len(keys), self.page_size):
            yield {"Contents": [{"Key": k} for k in keys[i:i + self.page_size]]}

    # resource side
    def Object(self, bucket, key):
        outer = self

        class _O:
            def get(self_inner):
                outer.calls.append(("get", bucket, key))
                return {"Body": FakeBody(outer.buckets[bucket][key])}
        return _O()


def install_fake_s3(fake):
    from mosromgr.utils import s3 as s3mod
    s3mod.s3._client = fake
    s3mod.s3._resource = fake


# ------------------------------------------------------------------------------------------
def status_name(e):
    from mosromgr import exc
    if e is None:
        return NONE
    if isinstance(e, exc.MosRoMgrException):
        return type(e).__name__
    return "crash:" + type(e).__name__


def run_collection(cid, docs, allow, strict, via, seed, tracer, tmproot):
    """one collection through one constructor; returns (coll_event, step_events)"""
    from mosromgr.moscollection import MosCollection
    from mosromgr.mostypes import MosFile, RunningOrder
    from mosromgr import exc
    style = mid_style(seed, cid)
    f, back = mid_maps(docs, style)
    texts = encode_docs(render_docs(docs, seed, cid, style), seed, cid)     # str, or bytes in another encoding
    as_bytes = lambda t: t if isinstance(t, bytes) else t.encode("utf-8")
    ev = {"id": cid, "docs": docs, "allow": allow, "strict": strict, "via": via, "flags": via, "mid_style": style,
          "accepted": "ok", "ro_mid": -1, "reader_mids": [], "merged": False, "steps": [], "raised": NONE,
          "nwarn": 0, "fold_eq": True, "completed": False, "reader_ok": True, "sorted_mids": []}
    try:
        with warnings.catch_warnings():
            warnings.simplefilter("ignore")
            ev["sorted_mids"] = [back(o.message_id) for o in sorted(MosFile.from_string(t) for t in texts)]
    except Exception as e:  # noqa: BLE001
        ev["sorted_mids"] = [-1]
    tmpdir = None
    try:
        with warnings.catch_warnings(record=True) as w:
            warnings.simplefilter("always")
            try:
                if via == "strings":
                    mc = MosCollection.from_strings(texts, allow_incomplete=allow)
                elif via == "readers":
                    # the documented constructor, given a sorted list of readers the caller keeps: trying the complete
                    # collection first and then the requested one must not change what the list describes
                    from mosromgr.moscollection import MosReader
                    readers = sorted(MosReader.from_string(t) for t in texts)
                    try:
                        MosCollection(readers, allow_incomplete=False)
                    except exc.InvalidMosCollection:
                        pass
                    mc = MosCollection(readers, allow_incomplete=allow)
                elif via == "files":
                    # the same file names are used for every collection this process builds (a re-export to the same
                    # paths): nothing may be remembered about a path from an earlier collection
                    tmpdir = os.path.join(tmproot, "p%d" % os.getpid())
                    if os.path.isdir(tmpdir):
                        shutil.rmtree(tmpdir)
                    os.makedirs(tmpdir)
                    paths = []
                    # now and then the files are named through a symbolic link and "..": <tmp>/link/../fNN is
                    # <tmp>/real/fNN for the operating system (link -> real/deep), not <tmp>/fNN
                    via_link = random.Random("%s|%s|link" % (seed, cid)).random() < 0.25
                    if via_link:
                        os.makedirs(os.path.join(tmpdir, "real", "deep"))
                        os.symlink(os.path.join("real", "deep"), os.path.join(tmpdir, "link"))
                    for i, t in enumerate(texts):
                        p = os.path.join(tmpdir, "real" if via_link else "", "f%02d.mos.xml" % i)
                        with open(p, "wb") as fh:
                            fh.write(as_bytes(t))
                        if via_link:
                            p = os.path.join(tmpdir, "link", "..", "f%02d.mos.xml" % i)
                        paths.append(pathlib.Path(p) if i % 2 else p)       # Path objects and plain strings alike
                    mc = MosCollection.from_files(paths, allow_incomplete=allow)
                else:
                    # keys are named so that key order is the supply order; extra non-matching keys are present
                    bucket = {"pre/f%02d.mos.xml" % i: as_bytes(t) for i, t in enumerate(texts)}
                    bucket["pre/readme.txt"] = b"not a mos file"
                    bucket["other/f00.mos.xml"] = b"<mos/>"
                    install_fake_s3(FakeS3({"bkt": bucket}, page_size=2))
                    mc = MosCollection.from_s3(bucket_name="bkt", prefix="pre/", allow_incomplete=allow)
            except Exception as e:  # noqa: BLE001
                ev["accepted"] = status_name(e)
                return ev, []
        ev["ro_mid"] = back(mc.ro.message_id)
        ev["reader_mids"] = [back(mr.message_id) for mr in mc.mos_readers]
        # C18: readers are faithful and restore fresh, equal objects
        ok = True
        for mr in mc.mos_readers:
            a, b = mr.mos_object, mr.mos_object
            ok = ok and (a is not b) and str(a) == str(b) and a.message_id == mr.message_id \
                and a.ro_id == mr.ro_id and type(a) is mr.mos_type
        ev["reader_ok"] = ok
        # hand fold over freshly parsed messages, in ascending numeric id order
        order = sorted(range(len(docs)), key=lambda i: docs[i]["mid"])
        with warnings.catch_warnings():
            warnings.simplefilter("ignore")
            tracer.depth += 1          # do not record the reference fold
            try:
                ref = None
                ref_err = None
                for i in order:
                    if docs[i]["kind"] in ("roCreate", "roCreateDone"):
                        ref = RunningOrder.from_string(texts[i])
                for i in order:
                    if docs[i]["kind"] in ("roCreate", "roCreateDone") or ref is None:
                        continue
                    try:
                        ref = ref + MosFile.from_string(texts[i])
                    except exc.MosMergeError as e:
                        if strict:
                            ref_err = e
                            break
            finally:
                tracer.depth -= 1
        tracer.take()
        tracer.prefix = cid + "/"
        tracer.seq = 0
        err = None
        with warnings.catch_warnings(record=True) as w:
            warnings.simplefilter("always")
            tracer.sink = w
            try:
                mc.merge(strict=strict)
            except Exception as e:  # noqa: BLE001
                err = e
            finally:
                tracer.sink = None
            ev["nwarn"] = sum(1 for x in w if x.category is exc.MosMergeNonStrictWarning)
        steps = tracer.take()
        ev["merged"] = True
        ev["steps"] = [{"mid": back(s["mid"]), "status": s["status"]} for s in steps]
        ev["raised"] = status_name(err)
        ev["fold_eq"] = (str(mc) == str(ref)) and ((ref_err is None) == (err is None))
        ev["completed"] = bool(mc.completed)
        return ev, steps
    finally:
        if tmpdir:
            shutil.rmtree(tmpdir, ignore_errors=True)


O_DRIVER = r'''
import sys, json, logging
logging.disable(logging.CRITICAL)
from mosromgr.moscollection import MosCollection
from mosromgr import exc
logging.disable(logging.CRITICAL)
out = {}
for cid, texts, allow in json.load(sys.stdin):
    try:
        mc = MosCollection.from_strings(texts, allow_incomplete=allow)
        out[cid] = ["ok", mc.ro.message_id, [mr.message_id for mr in mc.mos_readers]]
    except exc.MosRoMgrException as e:
        out[cid] = [type(e).__name__, -1, []]
    except BaseException as e:
        out[cid] = ["crash:" + type(e).__name__, -1, []]
json.dump(out, sys.stdout)
'''


def _worker(args):
    chunk, seed, tmproot = args
    logging.disable(logging.CRITICAL)
    from .tracer import Tracer
    tr = Tracer()
    tr.install()
    logging.disable(logging.CRITICAL)
    colls, steps = [], []
    for cid, c, via in chunk:
        ev, st = run_collection(cid, c["docs"], c["allow"], c["strict"], via, seed, tr, tmproot)
        colls.append(ev)
        steps.append(st)
    tr.uninstall()
    return colls, steps


def generate(tier, name):
    res = tlc.run("MC_coll", "MC_coll_%s.cfg" % tier, "coll-" + name, workers=16, timeout=3000)
    tlc.require_ok(res, "MC_coll")
    seen, out = set(), []
    for raw in res["lines"].get("COLL", []):
        if raw not in seen:
            seen.add(raw)
            out.append(json.loads(raw))
    out.sort(key=lambda c: json.dumps(c, sort_keys=True))
    return out, res["stats"]


def run(report, tier, seed, want, step_props=()):
    """want: clause -> True for the clauses this property's check reports"""
    import multiprocessing
    colls, st = generate(tier, report.prop)
    tmproot = tlc.workdir("coll-tmp-" + report.prop)
    todo = []
    vias = ("strings", "files", "s3", "readers")
    for i, c in enumerate(colls):
        for j, via in enumerate(vias):
            # every collection through every constructor for short lists; rotate for the long ones (quick tier)
            if (tier == "thorough" and len(c["docs"]) <= 9) or len(c["docs"]) <= 2 or (i % len(vias)) == j:
                todo.append(("c%d.%s" % (i, via), c, via))
    chunks = [(todo[k:k + 100], seed, tmproot) for k in range(0, len(todo), 100)]
    ctx = multiprocessing.get_context("fork")
    with ctx.Pool(16) as pool:
        parts = pool.map(_worker, chunks)
    events = [e for p in parts for e in p[0]]
    step_seqs = [s for p in parts for s in p[1] if s]
    # interpreter flag -O: validation must not be weakened (C11)
    batch = []
    for i, c in enumerate(colls):
        if c["strict"]:
            continue        # acceptance does not depend on strict: once per (docs, allow)
        if len(c["docs"]) > 9 and i % 5:
            continue
        batch.append(("c%d.O" % i, render_docs(c["docs"], seed, "c%d.O" % i, mid_style(seed, "c%d.O" % i)), c["allow"]))
    p = subprocess.run(["/venv/bin/python", "-O", "-c", O_DRIVER], input=json.dumps(batch), capture_output=True,
                       text=True, timeout=1200)
    if p.returncode != 0:
        raise tlc.TlcError("python -O collection subprocess failed: " + p.stderr[-2000:])
    got = json.loads(p.stdout)
    byc = {"c%d.O" % i: c for i, c in enumerate(colls)}
    for cid, (acc, ro_mid, rmids) in got.items():
        c = byc[cid]
        _, back = mid_maps(c["docs"], mid_style(seed, cid))
        ro_mid, rmids = (back(ro_mid) if acc == "ok" else -1), [back(x) for x in rmids]
        events.append({"id": cid, "docs": c["docs"], "allow": c["allow"], "strict": c["strict"], "via": "strings",
                       "flags": "python-O", "accepted": acc, "ro_mid": ro_mid, "reader_mids": rmids, "merged": False,
                       "steps": [], "raised": NONE, "nwarn": 0, "fold_eq": True, "completed": False, "reader_ok": True,
                       "sorted_mids": sorted(d["mid"] for d in c["docs"])})
    shutil.rmtree(tmproot, ignore_errors=True)
    bad, jst = pipeline.judge(events, "coll-" + report.prop, module="Trace_Coll")
    byid = {e["id"]: e for e in events}
    for b in bad:
        for clause in b["clauses"]:
            if clause in want:
                report.failure(clause, b["sig"], {"kind": "collection", "event": byid[b["id"]], "seed": seed})
    cov = {"states": st.get("distinct", 0) + jst["states"], "transitions": st.get("generated", 0),
           "traces_validated_against_impl": jst["judged"], "exhaustive": True,
           "collections": len(colls), "runs": len(events),
           "samples": [{k: v for k, v in e.items() if k != "steps"} for e in random.Random(seed).sample(events, 2)],
           "accepted_counts": {}, "tlc": [{"cmd": st["cmd"], "wall_s": st["wall_s"],
                                           "theorems": ["Inv_AcceptStaged", "Inv_ReadersExcludeCreate", "Inv_PermIndependent",
                                                        "Inv_Ascending", "Inv_Expected", "Live_Terminates", "Live_NonStrictDone"]}]}
    for e in events:
        cov["accepted_counts"][e["accepted"]] = cov["accepted_counts"].get(e["accepted"], 0) + 1
    # each `ro += msg` performed inside mc.merge() is a step judged against MosMerge as well
    if step_props:
        for n, seq in enumerate(step_seqs):
            for e in seq:
                e["obj"] = n * 10 + e["obj"]
                e.pop("mid", None)
                e.pop("has_sink", None)
        sbad, sj = pipeline.judge_sequences(step_seqs, "collsteps-" + report.prop)
        cov["merge_steps_judged"] = sj["judged"]
        cov["states"] += sj["states"]
        for b in sbad:
            for clause in b["clauses"]:
                props = pipeline.life_property(b["k"], clause)
                if report.prop in props or (clause == "continuity" and "C09" == report.prop):
                    report.failure(clause, "collstep:" + b["sig"], {"kind": "collection_step", "id": b["id"], "seed": seed})
    return cov
