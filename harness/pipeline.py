"""Binding A: TLC enumerates every (running order, message) inside the bound from spec/MC_merge.tla,
each one is replayed into the real code, and the recorded steps are judged by TLC again
(spec/Trace_Merge.tla).  All judging happens in TLA+; Python renders, executes, projects."""
import json
import multiprocessing
import os
import random
import time
from concurrent.futures import ThreadPoolExecutor

from . import tlc

CLAUSE_PROPERTY = {
    "story_seq": "C01", "story_perm": "C01",
    "item_seq": "C02", "item_perm": "C02",
    "unnamed": "C03",
    "carried": "C04",
    "fail_atomic": "C05",
    "reported": "C06", "acted_upon": "C06",
    "completion": "C07",
    "contained": "C12", "msg_intact": "C13", "msg_unshared": "C13", "history_free": "C13",
    "envelope": "C14",
}

# the library's reading of a document is the reference parser's: text, attributes and special characters intact on reading
# (C14), the same from str as from bytes / file (C18), and what a message's accessors expose is what the document names (C20)
PARSE_CLAUSES = {"parse_faithful_ro": ("C14", "C18"), "parse_faithful_msg": ("C20", "C18", "C04")}

STORY = ["StorySend", "StoryAppend", "StoryDelete", "StoryInsert", "StoryMove", "StoryReplace",
         "EAStoryReplace", "EAStoryDelete", "EAStoryInsert", "EAStorySwap", "EAStoryMove"]
ITEM = ["ItemDelete", "ItemInsert", "ItemMoveMultiple", "ItemReplace", "EAItemReplace",
        "EAItemDelete", "EAItemInsert", "EAItemSwap", "EAItemMove"]
OTHER = ["MetaDataReplace", "ReadyToAir", "RunningOrderReplace", "RunningOrderEnd"]


def tla_set(xs):
    return "{" + ", ".join('"%s"' % x for x in xs) + "}"


def write_cfg(path, classes, bound, export=True, invariants=True):
    b = dict(MaxStories=3, Layouts=["plain", "both", "nt1", "blank", "attr", "leadlast", "badtime"], MaxSrc=2, MaxCarried=2,
             MaxItems=3, ILayouts=["bare", "mixed", "itemfirst"])
    b.update(bound or {})
    lines = ["SPECIFICATION Spec", "CONSTANTS",
             "  Classes = %s" % tla_set(classes),
             "  MaxStories = %d" % b["MaxStories"],
             "  Layouts = %s" % tla_set(b["Layouts"]),
             "  MaxSrc = %d" % b["MaxSrc"],
             "  MaxCarried = %d" % b["MaxCarried"],
             "  MaxItems = %d" % b["MaxItems"],
             "  ILayouts = %s" % tla_set(b["ILayouts"]),
             "  Export = %s" % ("TRUE" if export else "FALSE")]
    if invariants:
        for inv in ("Inv_Total", "Inv_Order", "Inv_SpecConforms", "Inv_FailAtomic", "Inv_Perm", "Inv_Member"):
            lines.append("INVARIANT " + inv)
    lines.append("CHECK_DEADLOCK FALSE")
    with open(path, "w") as f:
        f.write("\n".join(lines) + "\n")
    return b


def generate(name, classes, bound, coverage=False, invariants=True):
    """TLC over MC_merge: theorems checked on the spec (when `invariants`), transition table exported"""
    wd = tlc.workdir("gen-" + name)
    cfg = os.path.join(wd, "MC.cfg")
    b = write_cfg(cfg, classes, bound, invariants=invariants)
    res = tlc.run("MC_merge", cfg, "gen-" + name, workers=16, coverage=coverage, timeout=3000)
    tlc.require_ok(res, "MC_merge " + name)
    pres = {}
    for p in tlc.json_lines(res, "PRE"):
        pres[json.dumps(p["key"])] = p["ro"]
    cases = []
    seen = set()
    for raw in res["lines"].get("CASE", []):
        if raw in seen:
            continue
        seen.add(raw)
        c = json.loads(raw)
        cases.append((json.dumps(c["key"]), c["msg"]))
    cases.sort(key=lambda c: (c[0], json.dumps(c[1], sort_keys=True)))
    del seen
    res["lines"] = {}          # memory: the exported text is not needed any more
    res["text"] = ""
    return {"pres": pres, "cases": cases, "stats": res["stats"], "bound": b, "classes": classes}


# ------------------------------------------------------------------------------------------
_G = {}


def _init(pres, seed, observe=False, expose=False):
    _G["pres"] = pres
    _G["seed"] = seed
    _G["observe"] = observe
    _G["expose"] = expose


def _run_chunk(chunk):
    from . import execute
    out = []
    for cid, key, msg in chunk:
        try:
            out.append(execute.run_case(cid, _G["pres"][key], msg, _G["seed"]))
        except execute.Machinery as e:
            out.append({"id": cid, "machinery": str(e)})
    return out


def execute_cases(gen, seed, prefix, procs=16):
    todo = [("%s%d" % (prefix, i), key, msg) for i, (key, msg) in enumerate(gen["cases"])]
    chunks = [todo[i:i + 200] for i in range(0, len(todo), 200)]
    ctx = multiprocessing.get_context("fork")
    with ctx.Pool(procs, initializer=_init, initargs=(gen["pres"], seed)) as pool:
        events = [e for part in pool.map(_run_chunk, chunks) for e in part]
    return events, {cid: (key, msg) for cid, key, msg in todo}


def _run_chunk_file(args):
    """execute a chunk of cases and write the events straight to a shard file for the judge (no pickling back)"""
    n, chunk, wd = args
    from . import execute
    events, light, mach = [], [], []
    for cid, key, msg in chunk:
        try:
            ev = execute.run_case(cid, _G["pres"][key], msg, _G["seed"])
            events.append(ev)
            light.append((cid, msg["cls"], ev["status"]))
        except execute.Machinery as e:
            mach.append(str(e))
    path = os.path.join(wd, "ev%d.json" % n)
    with open(path, "w") as f:
        json.dump(events, f)
    return path, len(events), light, mach


def execute_to_files(gen, seed, prefix, name, procs=16):
    wd = tlc.workdir("events-" + name)
    todo = [("%s%d" % (prefix, i), key, msg) for i, (key, msg) in enumerate(gen["cases"])]
    nfiles = max(1, min(procs, (len(todo) + 199) // 200))
    chunks = [(n, todo[n::nfiles], wd) for n in range(nfiles)]
    ctx = multiprocessing.get_context("fork")
    with ctx.Pool(procs, initializer=_init, initargs=(gen["pres"], seed)) as pool:
        parts = pool.map(_run_chunk_file, chunks)
    return parts, {cid: (key, msg) for cid, key, msg in todo}


def judge_files(parts, name, module="Trace_Merge"):
    """parts: [(path, n_events, ...)] written by the workers; one TLC judge per file, all in parallel"""
    parts = [p for p in parts if p[1] > 0]
    if not parts:
        return [], {"judged": 0, "states": 0}

    def one(i):
        res = tlc.run(module, module + ".cfg", "judge-%s-%d" % (name, i), workers=1,
                      env={"TRACE_FILE": parts[i][0]}, timeout=3000, heap="3g")
        os.remove(parts[i][0])
        return res

    with ThreadPoolExecutor(max_workers=16) as ex:
        results = list(ex.map(one, range(len(parts))))
    bad, judged, states = [], 0, 0
    for i, res in enumerate(results):
        tlc.require_ok(res, "%s shard %d of %s" % (module, i, name))
        j = res["lines"].get("JUDGED", [])
        if not j or int(j[-1]) != parts[i][1]:
            raise tlc.TlcError("judge shard %d of %s consumed %s of %d events" % (i, name, j, parts[i][1]))
        judged += parts[i][1]
        states += res["stats"].get("distinct", 0)
        seen = set()
        for raw in res["lines"].get("BAD", []):
            if raw not in seen:
                seen.add(raw)
                bad.append(json.loads(raw))
    return bad, {"judged": judged, "states": states}


def judge(events, name, shards=16, module="Trace_Merge"):
    """TLC judges every event; returns list of BAD records and judge stats"""
    wd = tlc.workdir("judge-" + name)
    events = [e for e in events if "machinery" not in e]
    if not events:
        return [], {"judged": 0, "states": 0}
    shards = max(1, min(shards, (len(events) + 199) // 200))
    parts = [events[i::shards] for i in range(shards)]

    def one(i):
        path = os.path.join(wd, "ev%d.json" % i)
        with open(path, "w") as f:
            json.dump([{k: v for k, v in e.items() if k != "xml"} for e in parts[i]], f)
        res = tlc.run(module, module + ".cfg", "judge-%s-%d" % (name, i), workers=1,
                      env={"TRACE_FILE": path}, timeout=3000, heap="3g")
        os.remove(path)
        return res

    with ThreadPoolExecutor(max_workers=16) as ex:
        results = list(ex.map(one, range(shards)))
    bad = []
    judged = 0
    states = 0
    for i, res in enumerate(results):
        tlc.require_ok(res, "%s shard %d of %s" % (module, i, name))
        j = res["lines"].get("JUDGED", [])
        if not j or int(j[-1]) != len(parts[i]):
            raise tlc.TlcError("judge shard %d of %s consumed %s of %d events" % (i, name, j, len(parts[i])))
        judged += len(parts[i])
        states += res["stats"].get("distinct", 0)
        seen = set()
        for raw in res["lines"].get("BAD", []):
            if raw not in seen:
                seen.add(raw)
                bad.append(json.loads(raw))
    return bad, {"judged": judged, "states": states}


def run_merge_check(report, families, seed, tier, extra_assumptions=None):
    """families: list of (name, classes, bound).  Runs generate -> execute -> judge for each and
    feeds the clauses of report.prop into the report.  Returns coverage dict."""
    from . import execute
    prop = report.prop
    cov = {"states": 0, "transitions": 0, "traces_validated_against_impl": 0, "samples": [],
           "exhaustive": True, "tlc": [], "per_class": {}, "status_counts": {}}
    for family in families:
        name, classes, bound = family[:3]
        with_theorems = family[3] if len(family) > 3 else True
        gen = generate("%s-%s" % (prop, name), classes, bound, invariants=with_theorems)
        st = gen["stats"]
        cov["states"] += st.get("distinct", 0)
        cov["transitions"] += st.get("generated", 0)
        cov["tlc"].append({"family": name, "classes": classes, "bound": gen["bound"], "cmd": st["cmd"],
                           "distinct_states": st.get("distinct"), "wall_s": st["wall_s"],
                           "action_coverage": {k: v for k, v in (st.get("coverage") or {}).items()
                                               if k in classes or k == "Init"},
                           "theorems": (["Inv_Total", "Inv_Order", "Inv_SpecConforms", "Inv_FailAtomic",
                                         "Inv_Perm", "Inv_Member"] if with_theorems else
                                        ["(none in this run: the theorems over this family are checked by the C01 / C02 / C03 runs)"])})
        # vacuity: every selected class must have produced transitions (counted from the exported transition table;
        # TLC's own -coverage costs ~20 s per run and is only used by `./check selftest`)
        per = {}
        for _, m in gen["cases"]:
            per[m["cls"]] = per.get(m["cls"], 0) + 1
        cov["tlc"][-1]["cases_per_class"] = per
        for c in classes:
            if per.get(c, 0) == 0:
                report.machinery_error("class %s produced no transition in family %s" % (c, name))
        parts, index = execute_to_files(gen, seed, name + ":", "%s-%s" % (prop, name))
        for _, _, light, mach in parts:
            for msg in mach:
                report.machinery_error(msg)
            for cid, k, status in light:
                cov["per_class"][k] = cov["per_class"].get(k, 0) + 1
                s = status.split(":")[0]
                cov["status_counts"][s] = cov["status_counts"].get(s, 0) + 1
        bad, jst = judge_files(parts, "%s-%s" % (prop, name))
        cov["traces_validated_against_impl"] += jst["judged"]
        cov["states"] += jst["states"]
        rnd = random.Random(seed)
        for cid in rnd.sample(sorted(index), min(2, len(index))):
            key, msg = index[cid]
            try:
                e = execute.run_case(cid, gen["pres"][key], msg, seed)
                cov["samples"].append({"id": cid, "msg": msg, "status": e["status"], "warns": e["warns"],
                                       "pre_story_ids": [k["id"] for k in e["pre"]["kids"] if k["tag"] == "story"],
                                       "post_story_ids": [k["id"] for k in e["post"]["kids"] if k["tag"] == "story"]})
            except execute.Machinery:
                pass
        for b in bad:
            for clause in b["clauses"]:
                if clause == "continuity":
                    report.machinery_error("continuity broken at %s" % b["id"])
                    continue
                if CLAUSE_PROPERTY.get(clause) != prop and prop not in PARSE_CLAUSES.get(clause, ()):
                    continue
                key, msg = index[b["id"]]
                detail = {"kind": "merge_case", "id": b["id"], "pre": gen["pres"][key], "msg": msg, "seed": seed}
                if report.failure(clause, b["sig"], detail) == "violation" and len(report.violations) <= 40:
                    try:
                        full = execute.run_case(b["id"], gen["pres"][key], msg, seed, keep_xml=True)
                        detail["xml"] = full.get("xml")
                        detail["observed"] = {k: full[k] for k in ("status", "warns", "ser_eq", "post")}
                    except Exception as e:  # noqa: BLE001
                        detail["xml_error"] = repr(e)
    return cov


# ------------------------------------------------------------------------------------------
# Binding B: histories (spec/MosLife.tla)
# ------------------------------------------------------------------------------------------
def life_property(kind, clause):
    """which listed properties a failing clause of a life event speaks about"""
    if clause == "continuity":
        return ("C13", "C03")      # an object changed outside its own steps: shared content (C13) = a collateral edit (C03)
    if clause in ("msg_intact", "msg_unshared", "history_free"):
        return ("C13",)
    if clause in PARSE_CLAUSES:
        return PARSE_CLAUSES[clause]
    if clause == "msg_expose":
        return ("C13", "C20")
    if kind == "reload":
        return {"reload_identity": ("C14",), "reload_completed": ("C07", "C14")}.get(clause, ())
    if kind == "remerge" and clause == "carried":
        return ("C13", "C04")      # a re-used message object delivered something else than what was sent
    if kind == "remerge" and clause in ("story_seq", "story_perm", "item_seq", "item_perm", "unnamed", "reported"):
        return ("C13",)
    p = CLAUSE_PROPERTY.get(clause)
    return (p,) if p else ()


def write_life_cfg(path, mode, objs, depth, bound=None, theme="all"):
    b = dict(MaxSrc=2, MaxCarried=2)
    b.update(bound or {})
    lines = ["SPECIFICATION Spec", "CONSTANTS", "  MaxSrc = %d" % b["MaxSrc"], "  MaxCarried = %d" % b["MaxCarried"],
             "  Objs = {%s}" % ", ".join(str(o) for o in objs), "  Depth = %d" % depth,
             '  Mode = "%s"' % mode, '  Theme = "%s"' % theme, "  Export = TRUE",
             "INVARIANT Inv_Export", "INVARIANT Inv_CompletedIffEnded", "INVARIANT Inv_Envelope",
             "INVARIANT Inv_TypeOK", "PROPERTY Act_Terminal", "CHECK_DEADLOCK FALSE"]
    with open(path, "w") as f:
        f.write("\n".join(lines) + "\n")


def generate_life(name, mode, objs, depth, seed, num=None, cap=None, theme="all"):
    wd = tlc.workdir("life-" + name)
    cfg = os.path.join(wd, "Life.cfg")
    write_life_cfg(cfg, mode, objs, depth, theme=theme)
    if mode == "alphabet":
        res = tlc.run("MosLife", cfg, "life-" + name, workers=16, timeout=3000)
    else:
        res = tlc.run("MosLife", cfg, "life-" + name, workers=8, timeout=3000,
                      simulate="num=%d" % num, extra=["-depth", str(depth + 3), "-seed", str(seed % (2 ** 31))])
    tlc.require_ok(res, "MosLife " + name)
    # memory: the exported lines are kept as text, de-duplicated and sampled as text; only what is replayed is parsed
    raws = sorted(set(res["lines"].get("BEH", [])))
    res["lines"] = {}
    res["text"] = ""
    if cap and len(raws) > cap:
        raws = random.Random(seed).sample(raws, cap)
    seen = {}
    for raw in raws:
        b = json.loads(raw)
        key = json.dumps(b["steps"], sort_keys=True)
        seen.setdefault(key, b)
    behs = [seen[k] for k in sorted(seen)]
    return behs, res["stats"]


def _observe_fn(ro):
    from . import observe, project
    return {"view": project.view_ro_xml(ro.xml), "obs": observe.observe_twice(ro)}


def _expose_fn(m, cls):
    from . import expose
    return expose.exposure(m, cls)


def _run_beh_chunk(args):
    """replay a chunk of behaviours; the events go straight into shard files for the judges"""
    n, chunk, wd = args
    from . import behave, execute
    seq, obs, light, mach = [], [], [], []
    for gidx, bid, beh in chunk:
        try:
            evs = behave.run_behaviour(bid, beh, _G["seed"], observe=_observe_fn if _G.get("observe") else None,
                                       expose=_expose_fn if _G.get("expose") else None)
        except execute.Machinery as e:
            mach.append(str(e))
            continue
        for e in evs:
            e["obj"] = gidx * 10 + e["obj"]          # object ids unique across behaviours
            if e["k"] == "observe" and "obs" in e:
                obs.append({"id": e["id"], "view": e["obs"]["view"], "obs": e["obs"]["obs"]})
            light.append((e["id"], e["k"], e["status"], bid,
                          {k: e.get(k) for k in ("status", "warns", "ser_eq", "intact", "cls", "completed_eq")}))
            seq.append({k: v for k, v in e.items() if k not in ("xml", "beh", "obs")})
    spath = os.path.join(wd, "seq%d.json" % n)
    with open(spath, "w") as f:
        json.dump(seq, f)
    opath = os.path.join(wd, "obs%d.json" % n)
    with open(opath, "w") as f:
        json.dump(obs, f)
    return (spath, len(seq)), (opath, len(obs)), light, mach, len(chunk) - len(mach)


def run_life_check(report, plans, seed, tier, observe=False, expose=False):
    """plans: list of dict(name, mode, objs, depth, num, cap)."""
    prop = report.prop
    cov = {"states": 0, "transitions": 0, "traces_validated_against_impl": 0, "samples": [],
           "tlc": [], "behaviours": 0, "events": 0, "kinds": {}, "status_counts": {}}
    for plan in plans:
        name = "%s-%s" % (prop, plan["name"])
        behs, st = generate_life(name, plan["mode"], plan["objs"], plan["depth"], seed,
                                 num=plan.get("num"), cap=plan.get("cap"), theme=plan.get("theme", "all"))
        if not behs:
            report.machinery_error("no behaviour generated for plan %s" % plan["name"])
            continue
        cov["states"] += st.get("distinct", 0) or st.get("generated", 0) or len(behs)
        cov["transitions"] += st.get("generated", 0) or len(behs) * plan["depth"]
        cov["tlc"].append({"plan": plan, "cmd": st["cmd"], "wall_s": st["wall_s"], "behaviours": len(behs),
                           "theorems": ["Inv_CompletedIffEnded", "Inv_Envelope", "Inv_TypeOK", "Act_Terminal"]})
        todo = [(i, "%s:%d" % (plan["name"], i), b) for i, b in enumerate(behs)]
        behmap = {bid: b for _, bid, b in todo}
        wd = tlc.workdir("events-" + name)
        nfiles = max(1, min(16, (len(todo) + 24) // 25))
        chunks = [(n, todo[n::nfiles], wd) for n in range(nfiles)]
        ctx = multiprocessing.get_context("fork")
        with ctx.Pool(16, initializer=_init, initargs=({}, seed, observe, expose)) as pool:
            results = pool.map(_run_beh_chunk, chunks)
        light = {}
        for sfile, ofile, lt, mach, nb in results:
            for m in mach:
                report.machinery_error(m)
            cov["behaviours"] += nb
            cov["traces_validated_against_impl"] += nb
            for eid, k, status, bid, small in lt:
                light[eid] = (k, bid, small)
                cov["kinds"][k] = cov["kinds"].get(k, 0) + 1
                s0 = status.split(":")[0]
                cov["status_counts"][s0] = cov["status_counts"].get(s0, 0) + 1
        bad, jst = judge_files([r[0] for r in results], name)
        cov["events"] += jst["judged"]
        cov["states"] += jst["states"]
        b0 = behs[0]
        cov["samples"].append({"plan": plan["name"], "steps": [
            {"k": s["k"], "obj": s["obj"], "cls": s["msg"]["cls"], "ref": s["ref"]} for s in b0["steps"]]})
        if observe:
            from .observe import OBS_CLAUSES
            obad, ojst = judge_files([r[1] for r in results], name + "-obs", module="Trace_Observe")
            cov["observations"] = cov.get("observations", 0) + ojst["judged"]
            cov["states"] += ojst["states"]
            for b in obad:
                for clause in b["clauses"]:
                    if prop in OBS_CLAUSES.get(clause, ()):
                        _, bid, _ = light[b["id"]]
                        report.failure(clause, "life:" + b["sig"],
                                       {"kind": "behaviour_observe", "behaviour": behmap[bid], "beh_id": bid,
                                        "seed": seed, "failing_step": b["id"], "raised": b["raised"]})
        else:
            for r in results:
                if os.path.exists(r[1][0]):
                    os.remove(r[1][0])
        for b in bad:
            _, bid, small = light[b["id"]]
            for clause in b["clauses"]:
                if prop not in life_property(b["k"], clause):
                    continue
                detail = {"kind": "behaviour", "behaviour": behmap[bid], "beh_id": bid, "seed": seed,
                          "failing_step": b["id"], "step_kind": b["k"], "observed": small}
                report.failure(clause, "%s:%s" % (b["k"], b["sig"]), detail)
    return cov


def judge_sequences(seqs, name, shards=16):
    """like judge(), but keeps each sequence (behaviour) whole and in order inside one shard"""
    wd = tlc.workdir("judge-" + name)
    seqs = [s for s in seqs if s]
    if not seqs:
        return [], {"judged": 0, "states": 0}
    shards = max(1, min(shards, len(seqs)))
    parts = [[] for _ in range(shards)]
    for i, s in enumerate(seqs):
        parts[i % shards].extend(s)

    def one(i):
        path = os.path.join(wd, "ev%d.json" % i)
        with open(path, "w") as f:
            json.dump([{k: v for k, v in e.items() if k not in ("xml", "beh", "obs")} for e in parts[i]], f)
        res = tlc.run("Trace_Merge", "Trace_Merge.cfg", "judge-%s-%d" % (name, i), workers=1,
                      env={"TRACE_FILE": path}, timeout=3000, heap="3g")
        os.remove(path)
        return res

    with ThreadPoolExecutor(max_workers=16) as ex:
        results = list(ex.map(one, range(shards)))
    bad, judged, states = [], 0, 0
    for i, res in enumerate(results):
        tlc.require_ok(res, "Trace_Merge shard %d of %s" % (i, name))
        j = res["lines"].get("JUDGED", [])
        if not j or int(j[-1]) != len(parts[i]):
            raise tlc.TlcError("judge shard %d of %s consumed %s of %d events" % (i, name, j, len(parts[i])))
        judged += len(parts[i])
        states += res["stats"].get("distinct", 0)
        seen = set()
        for raw in res["lines"].get("BAD", []):
            if raw not in seen:
                seen.add(raw)
                bad.append(json.loads(raw))
    return bad, {"judged": judged, "states": states}


# ------------------------------------------------------------------------------------------
# Binding C on the repository's own test suite
# ------------------------------------------------------------------------------------------
def run_suite_trace(report, seed):
    """run the pinned pytest suite with the tracer plugin; every `ro += msg` any test performs is judged by Trace_Merge"""
    import subprocess
    repo = os.environ.get("VERIF_REPO", "/repo")
    wd = tlc.workdir("suite-" + report.prop)
    trace = os.path.join(wd, "trace.json")
    env = dict(os.environ, MOSROMGR_VERIF="1", MOSROMGR_VERIF_TRACE=trace, PYTHONPATH="%s:%s" % (tlc.VERIF, repo))
    p = subprocess.run(["/venv/bin/python", "-m", "pytest", "-q", "-p", "no:cacheprovider", "-p", "harness.pytest_plugin"], cwd=repo, env=env, capture_output=True, text=True, timeout=900)
    cov = {"states": 0, "transitions": 0, "traces_validated_against_impl": 0, "samples": [], "pytest_rc": p.returncode,
           "pytest_tail": p.stdout.strip().splitlines()[-1:] if p.stdout else []}
    if not os.path.exists(trace):
        report.machinery_error("the traced test-suite run produced no trace (pytest rc=%s)" % p.returncode)
        return cov
    events = json.load(open(trace))
    for e in events:
        e.pop("mid", None)
        e.pop("has_sink", None)
    bad, jst = judge_sequences([events], "suite-" + report.prop, shards=1)
    cov["traces_validated_against_impl"] = jst["judged"]
    cov["states"] = jst["states"]
    cov["transitions"] = jst["judged"]
    cov["events"] = len(events)
    if events:
        e = events[0]
        cov["samples"].append({"id": e["id"], "cls": e["msg"]["cls"], "status": e["status"], "warns": e["warns"]})
    byid = {e["id"]: e for e in events}
    for b in bad:
        for clause in b["clauses"]:
            if report.prop in life_property(b["k"], clause):
                ev = byid[b["id"]]
                report.failure(clause, "suite:" + b["sig"], {"kind": "suite_event", "id": b["id"], "msg": ev["msg"],
                                                             "status": ev["status"], "warns": ev["warns"]})
    return cov
