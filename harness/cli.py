"""C19: the command line.  File lists / collections enumerated by spec/MC_cli.tla are written to a
scratch directory, `mosromgr.cli.main(argv)` is called in-process with stdout/stderr captured,
and TLC (spec/Trace_Cli.tla) judges the per-file markers, their order, the exit status and - for
`merge` - that exactly the library's merged serialisation was written."""
import contextlib
import io
import json
import logging
import os
import random
import shutil
import sys
import tempfile
import warnings

from . import collection, pipeline, project, tlc
from .render import Gamma

NONE = "~"


def rid(x):
    return {"shape": "id", "id": x}


def class_message(cls):
    """one schema-shaped abstract message per class"""
    m = project.empty_msg(cls)
    st = collection.story_node
    item = lambda i: collection.node("item", i, "x:item.cli." + i)
    if cls == "StorySend":
        m["story"] = rid("S1")
        m["hdr"] = [collection.node("roID", "RO1", "="), collection.node("storyID", "S1", "="),
                    collection.node("storySlug", NONE, "x:sendslug")]
        m["bodyPos"] = 4
        m["body"] = [collection.node("p", NONE, "x:sendp"), collection.node("storyItem", "I9", "x:senditem")]
    elif cls == "StoryAppend":
        m["carried"] = [st("N1")]
    elif cls in ("StoryDelete", "EAStoryDelete", "EAStorySwap"):
        m["ids"] = [rid("S1"), rid("S2")]
    elif cls in ("StoryInsert", "StoryReplace", "EAStoryReplace", "EAStoryInsert"):
        m["story"] = rid("S1")
        m["carried"] = [st("N1")]
    elif cls == "StoryMove":
        m["ids"] = [rid("S2"), rid("S1")]
    elif cls == "EAStoryMove":
        m["story"] = rid("S1")
        m["ids"] = [rid("S2")]
    elif cls in ("ItemDelete", "EAItemDelete", "EAItemSwap"):
        m["story"] = rid("S1")
        m["ids"] = [rid("I1"), rid("I2")] if cls == "EAItemSwap" else [rid("I1")]
    elif cls in ("ItemInsert", "ItemReplace", "EAItemReplace", "EAItemInsert"):
        m["story"] = rid("S1")
        m["item"] = rid("I1")
        m["carried"] = [item("J1")]
    elif cls == "ItemMoveMultiple":
        m["story"] = rid("S1")
        m["ids"] = [rid("I1"), {"shape": "blank", "id": NONE}]
    elif cls == "EAItemMove":
        m["story"] = rid("S1")
        m["item"] = rid("I1")
        m["ids"] = [rid("I1")]
    elif cls == "MetaDataReplace":
        m["carried"] = [collection.node("roID", "RO1", "="), collection.node("roSlug", NONE, "x:newSlug")]
    elif cls == "RunningOrderReplace":
        m["carried"] = [collection.node("roID", "RO1", "="), collection.node("roSlug", NONE, "x:replSlug"), st("N1")]
    elif cls == "RunningOrderEnd":
        m["carried"] = [collection.node("roDelete", NONE, "x:roDelete")]
    return m


def file_text(f, g):
    if f["kind"] == "nonxml":
        return "this is not XML <<<"
    if f["kind"] == "unknown":
        return "<mos><mosID>x</mosID><notAMosMessage><roID>RO1</roID></notAMosMessage></mos>"
    if f["cls"] == "RunningOrder":
        shape = collection.ro_shape(1000, "RO1")
        if f["completed"]:
            shape["root"].append(collection.node("mosromgrmeta", NONE, NONE, [collection.node("roDelete", NONE, "x:roDelete")]))
        return g.ro(shape)
    return g.msg(class_message(f["cls"]))


def call_main(argv):
    from mosromgr import cli
    out, err = io.StringIO(), io.StringIO()
    rc = "exc"
    with contextlib.redirect_stdout(out), contextlib.redirect_stderr(err):
        try:
            with warnings.catch_warnings():
                r = cli.main(argv)
            rc = 0 if r in (None, 0) else r
        except SystemExit as e:
            rc = e.code if isinstance(e.code, int) else 2
        except BaseException as e:  # noqa: BLE001
            rc = "crash:" + type(e).__name__
    return rc, out.getvalue(), err.getvalue()


# file and key names are data too: blanks, per-cent signs (also as format directives), non-ASCII letters, paths relative to
# the working directory
NAME_STYLES = {"plain": "file{i:02d}_{k}", "percent": "100% {i:02d}_{k} %s %d%%20", "unicode": "d\u00eda \u2603 {i:02d}_{k}",
               "braces": "{{0}} {i:02d}_{k} {{x}}", "rel": "rel{i:02d}_{k}"}


def name_style(seed, cid):
    return random.Random("%s|%s|names" % (seed, cid)).choice(sorted(NAME_STYLES))


def run_loop_case(cid, c, seed, tmproot):
    g = Gamma("%s|%s" % (seed, cid))
    mode = c.get("mode", "files")
    d = tempfile.mkdtemp(prefix="cli-", dir=tmproot)
    style = name_style(seed, cid)
    fmt = NAME_STYLES[style]
    cwd = os.getcwd()
    try:
        names = []
        if mode == "files":
            base = d
            if style == "rel":
                os.chdir(d)
                base = "."
            elif style != "plain":
                base = os.path.join(d, "sub dir")
                os.mkdir(base)
            for i, f in enumerate(c["files"]):
                p = os.path.join(base, fmt.format(i=i, k=f["kind"]) + ".mos.xml") if base != "." else \
                    fmt.format(i=i, k=f["kind"]) + ".mos.xml"
                if f["kind"] == "dir":
                    os.mkdir(p)
                elif f["kind"] == "missing":
                    # a path that cannot be read, for one of several reasons the operating system gives
                    how = random.Random("%s|%s|missing|%d" % (seed, cid, i)).choice(["absent", "absent", "notdir", "toolong", "loop"])
                    if how == "notdir":              # leads through a regular file
                        with open(p, "w") as fh:
                            fh.write("<mos/>")
                        p = os.path.join(p, "inner.mos.xml")
                    elif how == "toolong":           # a name longer than any file system allows
                        p = os.path.join(os.path.dirname(p) or ".", "n" * 300 + "%d.mos.xml" % i)
                    elif how == "loop":              # a symbolic link to itself
                        os.symlink(os.path.basename(p), p)
                else:
                    with open(p, "w", encoding="utf-8") as fh:
                        fh.write(file_text(f, g))
                names.append(p)
            argv = [c["cmd"], "-f"] + names
        else:
            # the same documents as objects of an in-memory bucket (keys in argument order), among unrelated keys
            sfx = ".mos.xml" if mode != "bucket_prefix_suffix" else ".xml"
            # keys may begin with a slash (then so does the prefix): "/pre/" and "pre/" are different places
            root = "/" if random.Random("%s|%s|root" % (seed, cid)).random() < 0.3 else ""
            bucket = {"zzz/unrelated.mos.xml": b"<mos/>", root + "pre/notes.txt": b"not a mos file"}
            if root:
                bucket["pre/decoy.mos.xml"] = b"<mos><messageID>1</messageID><roCreate><roID>DECOY</roID></roCreate></mos>"
            for i, f in enumerate(c["files"]):
                key = root + "pre/" + fmt.format(i=i, k=f["kind"]) + sfx
                bucket[key] = file_text(f, g).encode("utf-8")
                names.append(key)
            collection.install_fake_s3(collection.FakeS3({"bkt": bucket}, page_size=1))
            argv = [c["cmd"]]
            if mode != "none":
                argv += ["-b", "bkt"]
            if mode in ("bucket_prefix", "bucket_prefix_suffix"):
                argv += ["-p", root + "pre/"]
            if mode == "bucket_prefix_suffix":
                argv += ["-s", ".xml"]
            if mode == "bucket_key":
                argv += ["-k", names[0]]
        rc, out, err = call_main(argv)
        seen = []
        olines, elines = out.splitlines(), err.splitlines()
        firsts = []
        for p, f in zip(names, c["files"]):
            pre = p + ": "
            o = [ln[len(pre):] for ln in olines if ln.startswith(pre)]
            e = [ln[len(pre):] for ln in elines if ln.startswith(pre)]
            seen.append({"out": o, "err": e})
            if f["kind"] == "valid":
                idx = [k for k, ln in enumerate(olines) if ln.startswith(pre)]
                firsts.append(idx[0] if idx else -1)
        order_ok = all(a >= 0 for a in firsts) and firsts == sorted(firsts)
        return {"id": cid, "cmd": c["cmd"], "mode": mode, "files": c["files"], "seen": seen, "order_ok": order_ok,
                "rc": rc if isinstance(rc, int) else 99, "aborted": rc == 2 and "mosromgr error" in err,
                "stderr_nonempty": any(ln.strip() for ln in elines),
                "names": style, "stderr_tail": err[-300:], "stdout_head": out[:300].replace(d, "<tmp>")}
    finally:
        os.chdir(cwd)
        shutil.rmtree(d, ignore_errors=True)


def run_merge_case(cid, c, want_rc, seed, tmproot):
    from mosromgr.moscollection import MosCollection
    d = tempfile.mkdtemp(prefix="clim-", dir=tmproot)
    try:
        texts = collection.render_docs(c["docs"], seed, cid)
        # supply in a shuffled order: the command line must sort like the library
        order = list(range(len(texts)))
        random.Random("%s|%s" % (seed, cid)).shuffle(order)
        paths = []
        style = name_style(seed, cid)
        base = d
        if style not in ("plain", "rel"):
            base = os.path.join(d, "sub dir")
            os.mkdir(base)
        # names whose alphabetical order is the reverse of the order of the arguments
        stem = lambda n: NAME_STYLES[style].format(i=99 - n, k="in")
        for n, i in enumerate(order):
            p = os.path.join(base, stem(n) + ".mos.xml")
            with open(p, "w", encoding="utf-8") as fh:
                fh.write(texts[i])
            paths.append(p)
        want_text = None
        try:
            with warnings.catch_warnings():
                warnings.simplefilter("ignore")
                # a bucket listing is in key order: that is the order of supply the library sees there
                mode0 = c.get("mode", "files")
                lib_paths = paths if mode0 == "files" else sorted(paths, key=os.path.basename)
                mc = MosCollection.from_files(lib_paths, allow_incomplete=c["allow"])
                mc.merge(strict=not c["nonstrict"])
                want_text = str(mc)
        except Exception:  # noqa: BLE001
            want_text = None
        mode = c.get("mode", "files")
        if mode == "files":
            argv = ["merge", "-f"] + paths
        else:
            sfx = ".mos.xml" if mode != "bucket_prefix_suffix" else ".xml"
            root = "/" if (mode != "bucket_only" and random.Random("%s|%s|root" % (seed, cid)).random() < 0.3) else ""
            pre = "" if mode == "bucket_only" else root + "pre/"
            bucket = {}
            if root:           # the same documents' un-rooted namesake holds something else
                bucket["pre/decoy%s" % sfx] = b"<mos><messageID>1</messageID><roCreate><roID>DECOY</roID></roCreate></mos>"
            if mode != "bucket_only":
                bucket["zzz/unrelated%s" % sfx] = b"<mos><messageID>1</messageID><roCreate><roID>X</roID></roCreate></mos>"
            for n, i in enumerate(order):
                bucket["%s%s%s" % (pre, stem(n), sfx)] = texts[i].encode("utf-8")
            bucket["%snotes.txt" % pre] = b"not a mos file"
            collection.install_fake_s3(collection.FakeS3({"bkt": bucket}, page_size=2))
            argv = ["merge"] + ([] if mode == "none" else ["-b", "bkt"])
            if mode in ("bucket_prefix", "bucket_prefix_suffix"):
                argv += ["-p", pre]
            if mode == "bucket_prefix_suffix":
                argv += ["-s", ".xml"]
        argv += (["-i"] if c["allow"] else []) + (["-n"] if c["nonstrict"] else [])
        outpath = os.path.join(d, "merged.xml")
        stale = None
        if c["outfile"]:
            argv += ["-o", outpath]
            if random.Random("%s|%s|stale" % (seed, cid)).random() < 0.5:
                # the target exists already and is longer than any merged document: -o replaces it, nothing of it remains
                stale = "<!-- an earlier, longer result -->\n" + "<old>stale</old>\n" * 40000
                with open(outpath, "w", encoding="utf-8") as f:
                    f.write(stale)
        rc, out, err = call_main(argv)
        if c["outfile"]:
            content = open(outpath, encoding="utf-8").read() if os.path.exists(outpath) else ""
            if stale is not None and content == stale:
                content = ""            # left alone: nothing was written
            wrote = content != ""
        else:
            content = out[:-1] if out.endswith("\n") else out
            wrote = content.lstrip().startswith(("<mos", "<?xml"))      # help / progress text is not the merged document
        return {"id": cid, "cmd": "merge", "c": c, "rc": rc if isinstance(rc, int) else 99, "wrote": wrote,
                "same_as_lib": want_text is not None and content == want_text,
                "stderr_nonempty": any(ln.strip() for ln in err.splitlines()), "spec_rc": want_rc,
                "stderr_tail": err[-300:]}
    finally:
        shutil.rmtree(d, ignore_errors=True)


def _chunk(args):
    chunk, seed, tmproot = args
    logging.disable(logging.CRITICAL)
    import mosromgr.cli  # noqa: F401
    logging.disable(logging.CRITICAL)
    out = []
    for kind, cid, c, extra in chunk:
        if kind == "loop":
            out.append(run_loop_case(cid, c, seed, tmproot))
        else:
            out.append(run_merge_case(cid, c, extra, seed, tmproot))
    return out


def run(report, tier, seed, want=None):
    import multiprocessing
    res = tlc.run("MC_cli", "MC_cli_%s.cfg" % tier, "cli-" + report.prop, workers=16, timeout=3000)
    tlc.require_ok(res, "MC_cli")
    loops = sorted({raw for raw in res["lines"].get("CLI", [])})
    merges = sorted({raw for raw in res["lines"].get("MERGE", [])})
    todo = [("loop", "l%d" % i, json.loads(raw), None) for i, raw in enumerate(loops)]
    for i, raw in enumerate(merges):
        m = json.loads(raw)
        todo.append(("merge", "m%d" % i, m["c"], m["rc"]))
    tmproot = tlc.workdir("cli-tmp-" + report.prop)
    chunks = [(todo[k:k + 60], seed, tmproot) for k in range(0, len(todo), 60)]
    ctx = multiprocessing.get_context("fork")
    with ctx.Pool(16) as pool:
        events = [e for part in pool.map(_chunk, chunks) for e in part]
    shutil.rmtree(tmproot, ignore_errors=True)
    strip = lambda e: {k: v for k, v in e.items() if k not in ("stderr_tail", "stdout_head", "spec_rc")}
    loop_ev = [strip(e) for e in events if e["cmd"] != "merge"]
    merge_ev = [strip(e) for e in events if e["cmd"] == "merge"]
    cov_modes = {}
    for e in events:
        m = e.get("mode") or e["c"].get("mode")
        cov_modes[m] = cov_modes.get(m, 0) + 1
    bad1, j1 = pipeline.judge(loop_ev, "cli-loop-" + report.prop, module="Trace_Cli")
    bad2, j2 = pipeline.judge(merge_ev, "cli-merge-" + report.prop, module="Trace_Cli")
    byid = {e["id"]: e for e in events}
    for b in bad1 + bad2:
        for clause in b["clauses"]:
            if want is None or clause in want:
                report.failure(clause, b["sig"], {"kind": "cli", "event": byid[b["id"]], "seed": seed})
    st = res["stats"]
    cov = {"states": st.get("distinct", 0) + j1["states"] + j2["states"], "transitions": st.get("generated", 0),
           "traces_validated_against_impl": j1["judged"] + j2["judged"], "exhaustive": True,
           "loop_runs": len(loop_ev), "merge_runs": len(merge_ev), "runs_per_source_mode": cov_modes,
           "samples": [e for e in random.Random(seed).sample(events, 2)],
           "tlc": [{"cmd": st["cmd"], "wall_s": st["wall_s"], "theorems": ["Inv_InOrder", "Live_AllProcessed", "ASSUME MergeRc in {0,2}"]}]}
    return cov
