"""Random transitions OUTSIDE the exhaustive bound (up to 12 - every fifth running order up to 26 - stories, 20-40
distinct IDs, ID lists up to 6 - every fourth message up to 13 entries, so that counts and positions get a second
digit - metadata anywhere, up to 7 (14) items per story with paragraphs in between).  Inputs are drawn by a seeded Python generator, executed
against the real code like the TLC-generated transitions, and judged by the same TLC trace spec (Trace_Merge): the
specification's Merge is not bounded, only MC_merge's enumeration is."""
import random

from . import pipeline
from .pipeline import STORY, ITEM, OTHER

NONE = "~"


def node(tag, nid, tok, kids=None):
    return {"tag": tag, "id": nid, "tok": tok, "kids": kids or []}


def rid(x):
    return {"shape": "id", "id": x}


BLANK = {"shape": "blank", "id": NONE}
ABSENT = {"shape": "absent", "id": NONE}


def story(r, sid, v="", timed=True, big=False):
    kids = [node("storyID", sid, "="), node("storySlug", NONE, "x:slug.%s%s" % (sid, v))]
    if timed:
        kids.append(node("mosExternalMetadata", "sch.time", "tm:%s%s" % (sid, v)))
    n = r.randint(0, 7) if not big else r.randint(8, 14)
    ids = r.sample(["I%d" % i for i in range(1, 21)], n)
    for i in ids:
        if r.random() < 0.4:
            kids.append(node("p", NONE, "x:p.%s.%s%s" % (sid, i, v)))
        kids.append(node("item", i, "x:item.%s.%s%s" % (sid, i, v)))
    if r.random() < 0.5:
        kids.append(node("p", NONE, "x:p.%s.end%s" % (sid, v)))
    return node("story", sid, NONE, kids)


def running_order(r, big=False):
    n = r.randint(0, 12) if not big else r.randint(13, 26)
    sids = r.sample(["S%d" % i for i in range(1, 41)], n)
    kids = [node("roID", "RO1", "="), node("roSlug", NONE, "x:roSlug"), node("roEdStart", NONE, "ed:0")]
    meta = [node("roTrigger", NONE, "x:trig"), node("mosExternalMetadata", "sch.A", "x:extA"),
            node("mosExternalMetadata", "sch.B", "x:extB"), node("roChannel", NONE, "x:chan")]
    for s in sids:
        if r.random() < 0.15:
            kids.append(r.choice(meta))
        kids.append(story(r, s, timed=r.random() < 0.9, big=big))
    for m in meta:
        if r.random() < 0.25 and m not in kids:
            kids.append(m)
    root = [node("mosID", NONE, "x:mosID"), node("ncsID", NONE, "x:ncsID"), node("messageID", "1000", "="),
            node("roCreate", NONE, NONE)]
    return {"root": root, "kids": kids}, sids


def pick_refs(r, present, unknown, lo, hi, big):
    """a list of references; for big cases mostly distinct, resolving ones (the ordering properties speak about messages
    whose references all resolve)"""
    if big and present and r.random() < 0.6:
        k = min(len(present), r.randint(max(lo, 5), hi))
        return [rid(x) for x in r.sample(present, k)]
    return [pick_ref(r, present, unknown) for _ in range(r.randint(lo, hi))]


def pick_ref(r, present, unknown, allow_absent=False):
    x = r.random()
    if present and x < 0.75:
        return rid(r.choice(present))
    if x < 0.85:
        return rid(unknown)
    if allow_absent and x < 0.9:
        return dict(ABSENT)
    return dict(BLANK)


LISTY = ["StoryDelete", "EAStoryDelete", "EAStoryMove", "ItemDelete", "EAItemDelete", "ItemMoveMultiple", "EAItemMove",
         "StoryAppend", "StoryInsert", "EAStoryInsert", "ItemInsert", "EAItemInsert"]


def message(r, ro, sids, big=False):
    from .project import empty_msg
    # a big running order gets long ID lists / many carried elements, mostly of the classes that take lists
    cls = r.choice(STORY + ITEM + OTHER + STORY + ITEM + (LISTY * 6 if big else []))
    m = empty_msg(cls)
    top = 13 if big else 6
    fresh_s = [s for s in ["N%d" % i for i in range(1, 16)] if s not in sids]
    if cls in STORY:
        def carried():
            k = r.randint(1, 4) if not big else r.randint(5, 12)
            out = [story(r, s) for s in r.sample(fresh_s, k)]
            if sids and r.random() < 0.2:
                out.insert(r.randint(0, len(out)), story(r, r.choice(sids), v="'"))
            return out
        if cls == "StorySend":
            m["story"] = pick_ref(r, sids, "SU")
            sid = m["story"]["id"]
            m["hdr"] = [node("roID", "RO1", "="), node("storyID", sid, "="), node("storySlug", NONE, "x:sendslug"),
                        node("mosExternalMetadata", "sch.time", "tm:send")]
            m["bodyPos"] = r.randint(1, 5)
            body = []
            for i in range(r.randint(0, 6)):
                k = r.random()
                body.append(node("storyItem", "I%d" % (20 + i), "x:senditem%d" % i) if k < 0.5 else
                            node("p", NONE, "e:empty") if k < 0.65 else node("p", NONE, "x:sendp%d" % i))
            m["body"] = body
        elif cls == "StoryAppend":
            m["carried"] = carried()
        elif cls in ("StoryDelete", "EAStoryDelete"):
            m["ids"] = pick_refs(r, sids, "SU", 1, top, big)
        elif cls in ("StoryInsert", "EAStoryInsert", "StoryReplace", "EAStoryReplace"):
            m["story"] = pick_ref(r, sids, "SU", allow_absent=cls.endswith("Insert"))
            m["carried"] = carried()
        elif cls == "StoryMove":
            m["ids"] = [pick_ref(r, sids, "SU") for _ in range(r.choice([1, 2, 2, 2]))]
        elif cls == "EAStoryMove":
            m["story"] = pick_ref(r, sids, "SU", allow_absent=True)
            m["ids"] = pick_refs(r, sids, "SU", 1, top, big)
        elif cls == "EAStorySwap":
            m["ids"] = [pick_ref(r, sids, "SU"), pick_ref(r, sids, "SU")]
        return m
    if cls in ITEM:
        m["story"] = pick_ref(r, sids, "SU")
        items = []
        if m["story"]["shape"] == "id":
            for k in ro["kids"]:
                if k["tag"] == "story" and k["id"] == m["story"]["id"]:
                    items = [c["id"] for c in k["kids"] if c["tag"] == "item"]
        fresh_i = [i for i in ["J%d" % i for i in range(1, 16)] if i not in items]
        carried = lambda: [node("item", i, "x:item.msg.%s" % i) for i in r.sample(fresh_i, r.randint(1, 4) if not big else r.randint(5, 12))]
        if cls in ("ItemDelete", "EAItemDelete"):
            m["ids"] = pick_refs(r, items, "IU", 1, top, big)
        elif cls in ("ItemInsert", "EAItemInsert", "ItemReplace", "EAItemReplace"):
            m["item"] = pick_ref(r, items, "IU")
            m["carried"] = carried()
        elif cls == "ItemMoveMultiple":
            m["ids"] = pick_refs(r, items, "IU", 2, top, big)
        elif cls == "EAItemMove":
            m["item"] = pick_ref(r, items, "IU")
            m["ids"] = pick_refs(r, items, "IU", 1, top, big)
        elif cls == "EAItemSwap":
            m["ids"] = [pick_ref(r, items, "IU"), pick_ref(r, items, "IU")]
        return m
    if cls == "MetaDataReplace":
        opts = [node("roSlug", NONE, "x:newSlug"), node("roChannel", NONE, "x:newChan"), node("roEdStart", NONE, "ed:1"),
                node("mosExternalMetadata", "sch.A", "x:newA"), node("mosExternalMetadata", "sch.C", "x:newC")]
        m["carried"] = [node("roID", "RO1", "=")] + r.sample(opts, r.randint(0, 3))
    elif cls == "RunningOrderReplace":
        m["carried"] = [node("roID", "RO1", "="), node("roSlug", NONE, "x:replSlug")] + \
                       [story(r, s) for s in r.sample(fresh_s, r.randint(0, 3))]
    elif cls == "RunningOrderEnd":
        m["carried"] = [node("roDelete", NONE, "x:roDelete")]
    return m


def generate(seed, n):
    r = random.Random("randomdrv|%s" % seed)
    pres, cases = {}, []
    for i in range(n):
        big = i % 5 == 4
        ro, sids = running_order(r, big)
        key = "r%d" % i
        pres[key] = ro
        for _ in range(4):
            cases.append((key, message(r, ro, sids, big)))
    return {"pres": pres, "cases": cases, "stats": {}, "bound": {}, "classes": STORY + ITEM + OTHER}


def run(report, seed, n):
    gen = generate(seed, n)
    events, index = pipeline.execute_cases(gen, seed, "rnd:")
    for e in events:
        if "machinery" in e:
            report.machinery_error(e["machinery"])
    good = [e for e in events if "machinery" not in e]
    bad, jst = pipeline.judge(good, "rnd-" + report.prop)
    byid = {e["id"]: e for e in good}
    for b in bad:
        for clause in b["clauses"]:
            if pipeline.CLAUSE_PROPERTY.get(clause) != report.prop:
                continue
            key, msg = index[b["id"]]
            report.failure(clause, "rnd:" + b["sig"], {"kind": "merge_case", "id": b["id"], "pre": gen["pres"][key], "msg": msg,
                                                       "seed": seed, "observed": {k: byid[b["id"]][k] for k in ("status", "warns", "ser_eq", "post")}})
    return {"random_transitions": jst["judged"], "states": jst["states"]}
