"""./check selftest: demonstrations that the specification is really bound to the code.

 1. corrupt one recorded field of otherwise conforming events -> the TLC judge reports exactly that event and clause
 2. remove one recorded step of a behaviour                   -> the judge reports the continuity break
 3. mutate the specification (MoveTo takes the target index before removing the sources) -> TLC rejects the spec itself
 4. TLC -coverage: every action of MC_merge fires
Exit 0 when every demonstration behaves as stated."""
import copy
import json
import os
import shutil

from . import pipeline, tlc
from .pipeline import STORY


def run(tier, seed):
    ok = True

    def check(name, cond, detail=""):
        nonlocal ok
        print("%s %s %s" % ("PASS" if cond else "FAIL", name, detail))
        ok = ok and cond

    bound = dict(MaxStories=3, Layouts=["plain", "both"], MaxSrc=2, MaxCarried=2)
    gen = pipeline.generate("selftest", ["StoryMove", "StoryDelete", "EAStoryInsert"], bound, invariants=True)
    events, _ = pipeline.execute_cases(gen, seed, "st:")
    good = [e for e in events if "machinery" not in e]
    bad, _ = pipeline.judge(good, "selftest-0")
    check("baseline: %d recorded transitions, none flagged" % len(good), not bad, str(bad[:1]))

    # 1. corrupt single fields
    def first(pred):
        for e in good:
            if pred(e):
                return copy.deepcopy(e)
    stories = lambda ro: [k for k in ro["kids"] if k["tag"] == "story"]
    e1 = first(lambda e: e["msg"]["cls"] == "StoryMove" and e["status"] == "ok" and len(stories(e["post"])) >= 2
               and [k["id"] for k in stories(e["pre"])] != [k["id"] for k in stories(e["post"])])
    idx = [i for i, k in enumerate(e1["post"]["kids"]) if k["tag"] == "story"]
    e1["post"]["kids"][idx[0]], e1["post"]["kids"][idx[1]] = e1["post"]["kids"][idx[1]], e1["post"]["kids"][idx[0]]
    e1["id"] = "corrupt-order"
    e2 = first(lambda e: e["msg"]["cls"] == "StoryDelete" and e["status"] == "ok" and e["warns"])
    e2["warns"] = []
    e2["id"] = "corrupt-warns"
    e3 = first(lambda e: e["msg"]["cls"] == "EAStoryInsert" and e["status"] == "ok" and len(stories(e["pre"])) >= 1
               and len(stories(e["post"])) > len(stories(e["pre"])))
    pre_ids = {k["id"] for k in stories(e3["pre"])}
    i0 = [i for i, k in enumerate(e3["post"]["kids"]) if k["tag"] == "story" and k["id"] in pre_ids]
    if i0:
        e3["post"]["kids"][i0[0]]["kids"][-1]["tok"] = "x:tampered"
    e3["id"] = "corrupt-content"
    e4 = first(lambda e: e["status"] == "merge_error")
    e4["ser_eq"] = False
    e4["id"] = "corrupt-atomic"
    bad, _ = pipeline.judge(good[:50] + [e1, e2, e3, e4], "selftest-1")
    got = {b["id"]: set(b["clauses"]) for b in bad}
    check("corrupted story order is reported (story_seq)", "story_seq" in got.get("corrupt-order", ()), str(got.get("corrupt-order")))
    check("dropped warning is reported (reported)", "reported" in got.get("corrupt-warns", ()), str(got.get("corrupt-warns")))
    check("tampered content of an un-named story is reported (unnamed)", "unnamed" in got.get("corrupt-content", ()), str(got.get("corrupt-content")))
    check("changed serialisation after a failure is reported (fail_atomic)", "fail_atomic" in got.get("corrupt-atomic", ()), str(got.get("corrupt-atomic")))
    check("nothing else is reported", set(got) <= {"corrupt-order", "corrupt-warns", "corrupt-content", "corrupt-atomic"}, str(sorted(got)))

    # 2. a missing step breaks continuity
    from . import behave
    behs, _ = pipeline.generate_life("selftest", "alphabet", [1], 3, seed, cap=20)
    evs = None
    for i, b in enumerate(behs):
        cand = behave.run_behaviour("st%d" % i, b, seed)
        merges = [e for e in cand if e["k"] == "merge"]
        if len(merges) == 3 and merges[1]["pre"] != merges[1]["post"]:
            evs = cand
            break
    if evs is None:
        check("found a behaviour whose middle step changes the state", False)
    else:
        bad, _ = pipeline.judge_sequences([evs], "selftest-2a")
        check("complete behaviour: nothing flagged", not bad, str(bad[:1]))
        cut = [e for e in evs if e is not [x for x in evs if x["k"] == "merge"][1]]
        bad, _ = pipeline.judge_sequences([cut], "selftest-2b")
        check("behaviour with one step removed: continuity reported", any("continuity" in b["clauses"] for b in bad), str(bad[:1]))

    # 3. spec mutation
    wd = tlc.workdir("selftest-spec")
    mut = os.path.join(wd, "spec")
    shutil.copytree(tlc.SPEC, mut)
    p = os.path.join(mut, "MosMerge.tla")
    s = open(p).read()
    s2 = s.replace("ELSE Idx(rest, tag, tgt)", "ELSE Idx(s, tag, tgt)")
    assert s2 != s
    open(p, "w").write(s2)
    cfg = os.path.join(wd, "MC.cfg")
    pipeline.write_cfg(cfg, ["EAStoryMove"], bound, export=False)
    saved = tlc.SPEC
    tlc.SPEC = mut
    try:
        res = tlc.run("MC_merge", cfg, "selftest-mut", workers=8)
    finally:
        tlc.SPEC = saved
    check("mutated specification (stale target index in MoveTo) is rejected by TLC", not res["stats"].get("ok"),
          "violated=%s" % res["stats"].get("violated"))

    # 4. coverage
    cfg2 = os.path.join(wd, "MCcov.cfg")
    pipeline.write_cfg(cfg2, STORY, dict(MaxStories=2, Layouts=["plain"], MaxSrc=2, MaxCarried=2), export=False)
    res = tlc.run("MC_merge", cfg2, "selftest-cov", workers=8, coverage=True)
    cov = res["stats"].get("coverage", {})
    missing = [c for c in STORY if cov.get(c, {}).get("generated", 0) == 0]
    check("TLC -coverage: every story-level action fires", res["stats"].get("ok") and not missing, "missing=%s" % missing)
    shutil.rmtree(wd, ignore_errors=True)
    print("SELFTEST %s" % ("OK" if ok else "FAILED"))
    return 0 if ok else 1
