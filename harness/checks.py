"""One function per property: which spec configurations are enumerated, which clauses decide it."""
from . import pipeline
from .pipeline import STORY, ITEM, OTHER

TRUSTED = [
    "TLC 1.8 (model checker and trace judge)",
    "xml.etree.ElementTree as the reference reading of XML text",
    "harness/project.py (alpha: projection of ro.xml to the abstract tree, content digests)",
    "harness/render.py (gamma: rendering of abstract values, token <-> digest binding)",
]

Q_STORY = dict(MaxStories=4, MaxSrc=3, MaxCarried=3)
T_STORY = dict(MaxStories=5, MaxSrc=3, MaxCarried=3, Layouts=["plain", "between", "trailing", "both", "nt1", "nt2", "blank", "attr", "leadlast", "badtime"])
Q_ITEM = dict(MaxItems=4, MaxSrc=3, MaxCarried=2)
T_ITEM = dict(MaxItems=5, MaxSrc=3, MaxCarried=3)


def fam(tier, story=None, item=None, other=None, theorems=("story", "item", "other")):
    """families of MC_merge to enumerate; `theorems`: for which of them TLC also checks the spec's own theorems in this
    run (they cost ~60% of the generation time and are the same whichever property replays the transitions: C01 checks
    them for the story family, C02 for the item family, C03 for the metadata family; thorough runs check them always)"""
    out = []
    th = lambda f: tier == "thorough" or f in theorems
    if story:
        out.append(("story", story, Q_STORY if tier == "quick" else T_STORY, th("story")))
    if item:
        out.append(("item", item, Q_ITEM if tier == "quick" else T_ITEM, th("item")))
    if other:
        out.append(("other", other, {}, th("other")))
    return out


def merge_property(families_fn, assumptions):
    def run(report, tier, seed):
        import time
        t0 = time.time()
        stage = {}
        cov = pipeline.run_merge_check(report, families_fn(tier), seed, tier)
        stage["transitions"] = round(time.time() - t0, 1)
        t0 = time.time()
        # binding C: every `ro += msg` the repository's own 196 tests perform, recorded by the tracer, judged by TLC
        suite = pipeline.run_suite_trace(report, seed)
        cov["suite_trace"] = {k: v for k, v in suite.items() if k != "samples"}
        cov["traces_validated_against_impl"] += suite["traces_validated_against_impl"]
        cov["states"] += suite["states"]
        # beyond the exhaustive bound: seeded random transitions (up to 12 stories, 20 ids, lists up to 6), same TLC judge
        # "... and the same from every state reached by a prior merge history": behaviours of MosLife on live objects
        life = pipeline.run_life_check(report, lite_plans(tier, report.prop), seed, tier)
        cov["histories"] = {k: v for k, v in life.items() if k != "samples"}
        cov["traces_validated_against_impl"] += life["traces_validated_against_impl"]
        cov["states"] += life["states"]
        if report.prop in ("C05", "C06"):
            # each `ro += msg` inside a (non-)strict collection merge: failures leave the running order unchanged (C05),
            # warnings reach a caller that records with "always" (C06)
            from . import collection
            coll = collection.run(report, tier, seed, (), step_props=(report.prop,))
            cov["collection_steps"] = {k: v for k, v in coll.items() if k != "samples"}
            cov["traces_validated_against_impl"] += coll.get("merge_steps_judged", 0)
        stage["histories"] = round(time.time() - t0, 1)
        t0 = time.time()
        from . import randomdrv
        rnd = randomdrv.run(report, seed, 500 if tier == "quick" else 3000)
        stage["random"] = round(time.time() - t0, 1)
        cov["stage_wall_s"] = stage
        cov["random_beyond_bound"] = rnd
        cov["traces_validated_against_impl"] += rnd["random_transitions"]
        cov["states"] += rnd["states"]
        cov["exhaustive"] = True
        cov["trusted_base"] = TRUSTED
        cov["checker_cmd"] = "tlc MC_merge.tla (theorems + export) ; replay into /repo ; tlc Trace_Merge.tla (judge)"
        return report.finish(cov, assumptions)
    return run


A_COMMON = [
    "beyond the bound, 2 000 (quick) / 40 000 (thorough) seeded random transitions with up to 12 stories, 20 ids, lists up to 6 "
    "are executed and judged by the same TLC trace spec (not exhaustive; `exhaustive: true` refers to the bounded families)",
    "additionally every `ro += msg` performed by the repository's own test suite is recorded by the out-of-tree tracer "
    "(pytest plugin harness/pytest_plugin.py) and judged by the same TLC trace spec",
    "exhaustive inside the bound: stories S1..Sn in canonical order (messages range over all id choices, so every "
    "relative position of sources and target occurs); content behind each token is sampled by gamma (one sample per "
    "transition, seeded by VERIF_SEED)",
    "references are drawn from {each existing id, one unknown id, blank tag, missing tag}",
]

def life_plans(tier):
    """histories for the properties that are about histories (C07, C13-C17, C20)"""
    if tier == "quick":
        return [dict(name="all2", mode="alphabet", theme="all", objs=[1], depth=2),
                dict(name="carry3", mode="alphabet", theme="carry", objs=[1], depth=3),
                dict(name="share3", mode="alphabet", theme="share", objs=[1, 2], depth=3),
                dict(name="all3", mode="alphabet", theme="all", objs=[1], depth=3, cap=1500),
                dict(name="random", mode="random", objs=[1, 2], depth=8, num=40, cap=400)]
    # (caps: a sample of the enumerated behaviours, drawn with the run's seed, is replayed when there are more)
    return [dict(name="all3", mode="alphabet", theme="all", objs=[1], depth=3, cap=8000),
            dict(name="carry4", mode="alphabet", theme="carry", objs=[1], depth=4, cap=12000),
            dict(name="share3", mode="alphabet", theme="share", objs=[1, 2], depth=3),
            dict(name="share4", mode="alphabet", theme="share", objs=[1, 2], depth=4, cap=12000),
            dict(name="story4", mode="alphabet", theme="story", objs=[1], depth=4, cap=12000),
            dict(name="item4", mode="alphabet", theme="item", objs=[1], depth=4, cap=12000),
            # (length 4 over the FULL alphabet is a million behaviours of tens of kilobytes each: only the themed alphabets
            #  are enumerated at that length)
            dict(name="random", mode="random", objs=[1, 2], depth=12, num=400, cap=2500)]


def lite_plans(tier, prop):
    """histories for the single-step properties ("... and the same from every state reached by a prior merge history"):
    every history of length 3 over the alphabet that matters for the property, all pairs of the full alphabet, and a few
    simulated behaviours"""
    if tier != "quick":
        return life_plans(tier)
    themed = {"C01": "story", "C02": "item", "C04": "carry", "C03": "share"}.get(prop)
    plans = [dict(name="all2", mode="alphabet", theme="all", objs=[1], depth=2)]
    if themed:
        plans.append(dict(name=themed + "3", mode="alphabet", theme=themed, objs=[1, 2] if themed == "share" else [1], depth=3))
    if prop == "C03":      # story traffic around roStorySend, too: what a send / move / swap leaves behind for the next one
        plans.append(dict(name="story3", mode="alphabet", theme="story", objs=[1], depth=3))
    plans.append(dict(name="random", mode="random", objs=[1, 2], depth=8, num=25, cap=200))
    return plans


def alias_model(report):
    """design-level argument for C13 (spec/MosAlias.tla): with copy-on-merge the message tree never changes and nothing is
    shared; with by-reference insertion TLC must find the counterexample (otherwise the model has no teeth)"""
    from . import tlc
    ok = tlc.run("MosAlias", "MosAlias_copy.cfg", "alias-copy-" + report.prop, workers=4, timeout=600)
    ref = tlc.run("MosAlias", "MosAlias_ref.cfg", "alias-ref-" + report.prop, workers=4, timeout=600)
    if not ok["stats"].get("ok"):
        report.machinery_error("MosAlias with InsertMode=by_copy does not satisfy its invariants")
    if ref["stats"].get("ok") or not ref["stats"].get("violated"):
        report.machinery_error("MosAlias with InsertMode=by_reference was expected to violate NoSharedNodes")
    return {"by_copy": {"distinct_states": ok["stats"].get("distinct"), "invariants": ["MsgImmutable", "NoSharedNodes", "NoCrossEffect"]},
            "by_reference": {"violated": ref["stats"].get("violated")}}


def life_property(assumptions):
    def run(report, tier, seed):
        cov = pipeline.run_life_check(report, life_plans(tier), seed, tier, expose=(report.prop == "C13"))
        if report.prop == "C13":
            cov["alias_model"] = alias_model(report)
            cov["states"] += cov["alias_model"]["by_copy"]["distinct_states"] or 0
        cov["trusted_base"] = TRUSTED
        cov["checker_cmd"] = "tlc MosLife.tla (exhaustive alphabet histories + -simulate) ; replay on live objects ; tlc Trace_Merge.tla"
        return report.finish(cov, assumptions)
    return run


A_LIFE = [
    "histories: every sequence of length 2 (quick) / 3 (thorough) over a ~30-message state-dependent alphabet, every sequence of "
    "length 3 / 4 over the themed sub-alphabets (story, item, carry: ~10 messages each; carry includes re-merging the first "
    "message object), a seeded sample of 1500 / 20000 of the longer sequences over the full alphabet, plus "
    "tlc -simulate behaviours drawing any message of any class, with reload / re-merge steps, on two live objects",
    "judged step by step by TLC with resynchronisation on the implementation's post-state",
]

def c08(report, tier, seed):
    from . import classify
    cov = classify.run(report, tier, seed, ("classify_ok", "classify_same", "classify_contained"))
    cov["trusted_base"] = TRUSTED[:2] + ["harness/classify.py render_doc (rendering of abstract documents)"]
    return report.finish(cov, [
        "documents with two recognised message elements are outside the claim ('its top-level message element')",
        "16 message tags x {with children, childless}; roElementAction: 7 operations (5 + unknown + missing) x 4 target shapes "
        "x 6 source shapes; foreign siblings / nested look-alikes before and after; 5 kinds of malformed text",
        "each document classified from str, bytes and a file under warning filters default and error, and in a fresh "
        "`python -W error` interpreter"])


A_COLL = [
    "collections: every ordered list (all permutations of all subsets up to MaxDocs=3/4) over a pool of 8 documents "
    "{2 roCreate, 2 roDelete, ok, warn, fail, ok for another running order} with message ids of mixed width "
    "{8,9,10,11,99,100,101,1000} x strict x allow_incomplete",
    "each collection built through from_strings / from_files / from_s3 (in-memory fake of the boto3 paginator and "
    "Object().get()), merged, compared with Expected() computed in TLA+ and with a hand fold over freshly parsed messages",
    "acceptance additionally evaluated in a fresh `python -O` interpreter",
]


def coll_property(want, step_props=()):
    def run(report, tier, seed):
        from . import collection
        cov = collection.run(report, tier, seed, want, step_props)
        cov["trusted_base"] = TRUSTED + ["harness/collection.py FakeS3 (shape of boto3 responses)", "harness/tracer.py"]
        return report.finish(cov, A_COLL)
    return run


def combine(covs):
    out = {"states": 0, "transitions": 0, "traces_validated_against_impl": 0, "samples": [], "parts": {}}
    for name, c in covs:
        for k in ("states", "transitions", "traces_validated_against_impl"):
            out[k] += c.get(k, 0)
        out["samples"] += c.get("samples", [])[:2]
        out["parts"][name] = {k: v for k, v in c.items() if k != "samples"}
    return out


A_OBS = [
    "views: 0..2/3 stories x 11 timing shapes (no metadata, no payload, StoryDuration, TextTime, MediaTime, both, "
    "StoryDuration+TextTime, explicit started / ended / both) x roEdStart present/absent; paragraph texts: every string up to "
    "length 4/5 over {space, tab, nbsp, ( ) < > a}; bodies: every sequence up to 3/4 over {p, empty p, bracketed p, item, other}",
    "numbers are quarter-second multiples and ISO times without zone (exact in floats); float rounding and other date formats are not decided",
    "paragraphs with inline child elements are outside C17",
]


def obs_life_plans(tier):
    """histories for the read-side properties: the accessors are called at the start and after every step"""
    if tier != "quick":         # every step is followed by a full sweep of the accessors (twice): smaller samples
        return [dict(name="all2", mode="alphabet", theme="all", objs=[1], depth=2),
                dict(name="all3", mode="alphabet", theme="all", objs=[1], depth=3, cap=6000),
                dict(name="carry4", mode="alphabet", theme="carry", objs=[1], depth=4, cap=3000),
                dict(name="story4", mode="alphabet", theme="story", objs=[1], depth=4, cap=3000),
                dict(name="item4", mode="alphabet", theme="item", objs=[1], depth=4, cap=3000),
                dict(name="random", mode="random", objs=[1, 2], depth=12, num=200, cap=1200)]
    return [dict(name="all2", mode="alphabet", theme="all", objs=[1], depth=2),
            dict(name="all3", mode="alphabet", theme="all", objs=[1], depth=3, cap=800),
            dict(name="random", mode="random", objs=[1, 2], depth=8, num=25, cap=200)]


def obs_property(families, life=True):
    def run(report, tier, seed):
        from . import observe
        covs = [("views", observe.run(report, tier, seed, families))]
        if report.prop in ("C15", "C17"):
            covs.append(("send_story", observe.run_send(report, tier, seed)))
        if life:
            covs.append(("life", pipeline.run_life_check(report, obs_life_plans(tier), seed, tier, observe=True)))
        cov = combine(covs)
        cov["trusted_base"] = TRUSTED + ["harness/project.py view_ro_xml (direct read of timing / body data)", "harness/observe.py"]
        return report.finish(cov, A_OBS + (A_LIFE if life else []))
    return run


def c20(report, tier, seed):
    from . import expose
    cov = combine([("messages", expose.run(report, tier, seed)),
                   ("life", pipeline.run_life_check(report, life_plans(tier), seed, tier, expose=True))])
    cov["trusted_base"] = TRUSTED + ["harness/expose.py (table of documented accessors per class)"]
    return report.finish(cov, [
        "every distinct message of the bounded generators of MC_merge (all 24 classes; targets in {id, unknown id, blank, "
        "missing}; 1..2/3 sources; 0..2/3 carried), rendered compact or pretty-printed",
        "inspect() must not raise and must mention every source / carried id it names (labels are not judged)"])


def c19(report, tier, seed):
    from . import cli
    cov = cli.run(report, tier, seed)
    cov["trusted_base"] = TRUSTED + ["harness/cli.py (file rendering, line parsing)"]
    return report.finish(cov, [
        "file lists up to 2/3 over {RunningOrder, completed RunningOrder, StoryAppend, EAStoryMove, non-XML, unknown XML, "
        "missing path, directory} plus one list per message class (alone and followed by a completed running order), for detect and inspect",
        "merge: every id-ordered collection up to 3/4 documents of the pool x --incomplete x --non-strict x -o, files supplied in shuffled order",
        "a valid file needs exactly one stdout line '<file>: <Class>[ (completed)]' in argument order; an invalid one a line "
        "'<file>: <not a class name>' on stdout or stderr; library log lines are ignored; None and 0 are both exit status 0",
        "source modes: -f files; -b/-p (default suffix); -b/-p/-s; -b/-k; -b alone; nothing - the bucket is an in-memory fake "
        "(one or two keys per page); a command that names no document must exit 2 with a message on stderr"])


def c18(report, tier, seed):
    from . import sources, collection
    covs = [("sources", sources.run(report, tier, seed)),
            ("collection", collection.run(report, tier, seed, ("coll_reader", "coll_fold")))]
    cov = combine(covs)
    cov["trusted_base"] = TRUSTED + ["harness/sources.py ListingFake / harness/collection.py FakeS3 (shape of boto3 responses)"]
    return report.finish(cov, A_COLL + [
        "bucket listings: every bucket of up to 4/5 keys (under / not under the prefix, with / without the suffix) x page size "
        "1..2/3 x prefix given, empty or omitted x default / explicit suffix, answered by an in-memory paginator",
        "one document per class (x2/8 content samples with Unicode and markup-significant text) loaded from file, str, bytes, "
        "fake S3 object and through MosReader: same class and serialisation (differential; the TLA+ content of this part is small)",
        "real S3 is not reachable offline"])


def c12(report, tier, seed):
    from . import classify, collection
    covs = [("merge", pipeline.run_merge_check(report, fam(tier, story=STORY, item=ITEM, other=OTHER, theorems=()), seed, tier)),
            ("classify", classify.run(report, tier, seed, ("classify_contained",))),
            ("collection", collection.run(report, tier, seed, ("coll_contained",), step_props=("C12",)))]
    cov = combine(covs)
    cov["trusted_base"] = TRUSTED
    return report.finish(cov, A_COMMON + A_COLL + ["only schema-shaped messages are judged (required tags present)",
                                                   "well-formed documents of MC_classify: no built-in exception from classification",
                                                   "non-strict collection merges always run to the end (also a TLC liveness property of MC_coll)"])


def c07(report, tier, seed):
    from . import collection, cli
    covs = [("life", pipeline.run_life_check(report, life_plans(tier), seed, tier)),
            ("collection", collection.run(report, tier, seed, ("coll_completed",), step_props=("C07",))),
            ("cli", cli.run(report, tier, seed, want=("cli_completed",)))]     # "(completed)" exactly when applicable
    cov = combine(covs)
    cov["trusted_base"] = TRUSTED
    return report.finish(cov, A_LIFE + A_COLL)


REGISTRY = {
    "C01": merge_property(lambda t: fam(t, story=STORY), A_COMMON + [
        "compared through the story-ID sequence only (C01's lens); judged when all references resolve, "
        "multiset preservation of moves/swaps judged for every input"]),
    "C02": merge_property(lambda t: fam(t, item=ITEM), A_COMMON + [
        "compared through the item-ID sequence of the addressed story; a second story with the same item ids is always present"]),
    "C03": merge_property(lambda t: fam(t, story=STORY, item=ITEM, other=OTHER, theorems=("other",)), A_COMMON + [
        "compared through the sequence of (tag,id,content digest) of every node the message does not operate on, at both levels"]),
    "C04": merge_property(lambda t: fam(t, story=["StorySend", "StoryAppend", "StoryInsert", "StoryReplace", "EAStoryReplace", "EAStoryInsert"],
                                        item=["ItemInsert", "ItemReplace", "EAItemReplace", "EAItemInsert"],
                                        other=["MetaDataReplace", "RunningOrderReplace"], theorems=()), A_COMMON + [
        "structure (how many carried, storyBody position, body composition) enumerated by TLC; the content behind each token "
        "(depth, attributes, mixed text, special characters) sampled by gamma and compared by digest"]),
    "C05": merge_property(lambda t: fam(t, story=STORY, item=ITEM, other=OTHER, theorems=()), A_COMMON + [
        "a step whose status is not ok must leave the abstract state AND str(ro) unchanged"]),
    "C06": merge_property(lambda t: fam(t, story=STORY, item=ITEM, theorems=()) + [
        # containers that hold an id twice (outside the premise of C01-C05): deletes, judged by `acted_upon` only
        ("storydup", ["StoryDelete", "EAStoryDelete"], dict(Q_STORY if t == "quick" else T_STORY, Layouts=["dup"]), False),      # (the ordering theorems presuppose unique ids)
        ("itemdup", ["ItemDelete", "EAItemDelete"], dict(Q_ITEM if t == "quick" else T_ITEM, ILayouts=["dup"]), False)],
        A_COMMON + [
        "warnings = MosRoMgrWarning subclasses recorded with simplefilter('always')"]),
    "C08": c08,
    "C09": coll_property(("coll_steps", "coll_fold"), step_props=("C09",)),
    "C10": coll_property(("coll_order", "coll_fold")),
    "C11": coll_property(("coll_accept", "coll_members")),
    "C07": c07,
    "C13": life_property(A_LIFE),
    "C14": life_property(A_LIFE),
    "C12": c12,
    "C18": c18,
    "C19": c19,
    "C20": c20,
    "C15": obs_property(("timing", "text")),
    "C16": obs_property(("timing",)),
    "C17": obs_property(("text",)),
}
