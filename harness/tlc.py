"""Running TLC and reading what it printed."""
import json
import os
import re
import shutil
import subprocess
import time

VERIF = os.path.dirname(os.path.dirname(os.path.abspath(__file__)))
SPEC = os.path.join(VERIF, "spec")
# scratch / output root: /verif unless VERIF_SCRATCH redirects it (used when seeded changes are evaluated in parallel)
OUT_ROOT = os.environ.get("VERIF_SCRATCH", VERIF)
WORK = os.path.join(OUT_ROOT, ".work")
JAR = "/opt/veriftools/tla/tla2tools.jar:/opt/veriftools/tla/CommunityModules-deps.jar"


class TlcError(Exception):
    pass


CREATED = []          # work directories made by this process (removed when the check ends: disk space is limited)


def cleanup():
    for d in CREATED:
        shutil.rmtree(d, ignore_errors=True)
    del CREATED[:]


def workdir(name, clean=True):
    d = os.path.join(WORK, name)
    if d not in CREATED:
        CREATED.append(d)
    if clean and os.path.isdir(d):
        shutil.rmtree(d, ignore_errors=True)
    os.makedirs(d, exist_ok=True)
    return d


def unescape(s):
    """undo TLC's escaping of a string value as printed by PrintT (TLC's escapes are JSON string escapes)"""
    try:
        return json.loads('"' + s + '"')
    except ValueError:
        return _unescape_slow(s)


def _unescape_slow(s):
    out = []
    i = 0
    while i < len(s):
        c = s[i]
        if c == "\\" and i + 1 < len(s):
            n = s[i + 1]
            out.append({"n": "\n", "t": "\t", "r": "\r", "f": "\f"}.get(n, n))
            i += 2
        else:
            out.append(c)
            i += 1
    return "".join(out)


LINE = re.compile(r'^<<"([A-Z]+)", "(.*)">>$')


def run(module, cfg, name, workers=16, timeout=1800, env=None, simulate=None, extra=None,
        coverage=False, heap=None):
    """run TLC on spec/<module>.tla with spec/<cfg>; returns dict(out, stats, lines{KIND:[json...]})"""
    wd = workdir("tlc-" + name)
    jtmp = os.path.join(WORK, "jtmp")
    os.makedirs(jtmp, exist_ok=True)
    out_path = os.path.join(wd, "out.txt")
    # one-worker judge shards run 16 at a time: a serial collector avoids 16 x 16 GC threads fighting for the cores
    # -Xss: recursive operators over sequences of a hundred and more elements (bulk collections, long ID lists) need more
    # than the default thread stack
    cmd = ["java", "-XX:+UseSerialGC" if workers == 1 else "-XX:+UseParallelGC", "-Xss64m", "-Djava.io.tmpdir=" + jtmp]
    if heap:
        cmd.append("-Xmx" + heap)
    cmd += ["-cp", JAR, "tlc2.TLC", "-workers", str(workers), "-metadir", os.path.join(wd, "md"),
            "-noGenerateSpecTE", "-config", cfg]
    if coverage:
        cmd += ["-coverage", "1"]
    if simulate:
        cmd += ["-simulate", simulate]
    if extra:
        cmd += extra
    cmd.append(module + ".tla")
    e = dict(os.environ)
    e.pop("JAVA_TOOL_OPTIONS", None)
    if env:
        e.update(env)
    t0 = time.time()
    with open(out_path, "w") as fo:
        try:
            p = subprocess.run(cmd, cwd=SPEC, stdout=fo, stderr=subprocess.STDOUT, env=e, timeout=timeout)
            rc = p.returncode
        except subprocess.TimeoutExpired:
            rc = -9
    wall = time.time() - t0
    lines = {}
    other = []
    with open(out_path, encoding="utf-8", errors="replace") as f:
        for ln in f:
            ln = ln.rstrip("\n")
            m = LINE.match(ln)
            if m:
                lines.setdefault(m.group(1), []).append(unescape(m.group(2)))
            else:
                other.append(ln)
    text = "\n".join(other)
    stats = {"rc": rc, "wall_s": round(wall, 2), "cmd": " ".join(cmd)}
    m = re.search(r"(\d+) states generated, (\d+) distinct states found", text)
    if m:
        stats["generated"] = int(m.group(1))
        stats["distinct"] = int(m.group(2))
    m = re.search(r"The depth of the complete state graph search is (\d+)", text)
    if m:
        stats["depth"] = int(m.group(1))
    stats["ok"] = (rc == 0 and "No error has been found" in text) or (simulate is not None and rc == 0)
    stats["violated"] = re.findall(r"Invariant (\S+) is violated", text) + \
        re.findall(r"Action property (\S+) is violated", text)
    if coverage:
        stats["coverage"] = parse_coverage(text)
    shutil.rmtree(os.path.join(wd, "md"), ignore_errors=True)
    return {"text": text, "stats": stats, "lines": lines, "out_path": out_path}


def parse_coverage(text):
    """per-action counts from `-coverage`: <Action line .. of module M>: distinct:generated"""
    cov = {}
    for m in re.finditer(r"^<(\w+) line \d+, col \d+ to line \d+, col \d+ of module (\w+)>: (\d+):(\d+)", text, re.M):
        name, mod, distinct, gen = m.group(1), m.group(2), int(m.group(3)), int(m.group(4))
        cov[name] = {"distinct": distinct, "generated": gen}
    return cov


def json_lines(res, kind):
    return [json.loads(s) for s in res["lines"].get(kind, [])]


def require_ok(res, what):
    if not res["stats"].get("ok"):
        lines = res["text"].splitlines()
        first = [i for i, ln in enumerate(lines) if ln.startswith("Error:") or "Exception" in ln]
        head = "\n".join(lines[first[0]:first[0] + 25]) + "\n...\n" if first else ""
        tail = head + "\n".join(lines[-15:])
        raise TlcError("TLC failed for %s (rc=%s, violated=%s)\n%s" %
                       (what, res["stats"].get("rc"), res["stats"].get("violated"), tail))
