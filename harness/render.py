"""gamma: rendering of abstract running orders / messages (TLA+ values exported as JSON) to real
MOS XML text.  TLC enumerates *structure*; gamma samples the *content* behind every opaque token:
nesting depth, attributes, mixed text and tails, markup-significant and non-BMP characters.

The content of a token is a pure function of (seed, token name, tag, id) and always embeds the
token name, so two different tokens never render to equal content.
"""
import hashlib
import random
from xml.sax.saxutils import escape as _escape, quoteattr


def escape(s):
    """text content: a carriage return only survives parsing as a character reference"""
    return _escape(s, {"\r": "&#13;", "\x85": "&#133;", "\x7f": "&#127;", "\x9f": "&#x9F;", "\ufeff": "&#xFEFF;"})


NONE = "~"
ID_TAGS = ("storyID", "itemID", "roID", "messageID")

WORDS = ["alpha", "Bravo", "čárka", "δέλτα", "echo & co", "fox<trot>", "golf \"quoted\"", "hôtel",
         "индия", "juliet's", "キロ", "lima]]>", "mike nbsp", "𝒏ovember", "🙂scar", "papa\ttab",
         "q=1&r=2", "<!--not a comment-->", "  padded  ", "x" * 40, "carriage\rreturn", "cr\r\nlf", "nel\x85del\x7fapc\x9f", "zero\ufeffwidth"]
TAGS = ["mosAbstract", "objSlug", "objDur", "objTB", "ncsItem", "studioCommand", "text", "b", "i",
        "custom-tag", "ns_tag", "Element.With.Dots",
        # look-alikes of structural elements, nested where they mean nothing (depth >= 3)
        "item", "story", "storyID", "itemID", "p", "roID", "mosExternalMetadata", "mosPayload", "StoryDuration",
        "storyBody", "storyItem", "roCreate", "roDelete", "mosromgrmeta", "roStorySend", "roElementAction", "messageID",
        "storyID", "itemID", "storyID", "itemID",
        # names outside ASCII
        "r\u00e9sum\u00e9", "\u03c7\u03c1\u03cc\u03bd\u03bf\u03c2"]
ATTRS = ["type", "techDescription", "lang", "data-x", "id", "unit\u00e9"]
# ids that nested look-alike <storyID>/<itemID> elements spell: the very ids stories, items and messages use
LIKELY_IDS = ["S1", "S2", "S3", "N1", "N2", "SU", "I1", "I2", "I3", "J1", "J2", "IU", "I9"]


# ------------------------------------------------------------------------------------------
# ID styles: the specification is agnostic about what an ID looks like, the code may not be.  A style is a bijection on
# the ID strings of one case / behaviour, applied to the abstract running order AND the abstract messages before
# anything is rendered or judged (TLC then simply sees other strings).
# ------------------------------------------------------------------------------------------
ID_STYLES = ("plain", "plain", "prefix", "special", "case", "spaces", "long", "numeric", "words", "xpath", "verylong",
             "unicode", "trail", "url", "blanks", "suffix")
BLANK_IDS = [" ", "  ", "\u00a0", "\u3000", "\t", "\n", " \t", "\u2003", "   ", "\u00a0 ", "\t\t", "\n ", "\u2009", " \n", "\u3000 ", "    "]
SCHEMA_URLS = ["http://host/a", "http://host/a/", "http://[::1/mos/schema", "HTTP://Host/a", "http://[ncs-gallery]/schema",
               "urn:x:y", "http://host/a//", "//["]
URL_IDS = ["http://host/a", "HTTP://Host/a", "http://[::1/mos/schema", "http://[ncs-gallery]/schema", "urn:x:y", "//[",
           "http://a b/c", "file:///c:/x", "http://host:99999/x", "http://host:port/x", "http://host/a?b=1#c", "mailto:x@y",
           "http://host/%zz", "http://h\u00f6st/", "http://host/a/", "HTTP://HOST/A"]
NUMERIC_IDS = ["9", "10", "007", "7", "1e3", "0", "-1", "100", "1.0", "1", "0x1F", "+5", "1000", "٣", "1_0", "00"]
WORD_IDS = ["None", "True", "False", "nan", "null", "story", "item", "storyID", "itemID", "p", "roCreate", "id", "self",
            "mos", "undefined", "NaN"]
XPATH_IDS = ["a/b", "x]y", "[1]", "{urn:x}t", "*", ".", "..", "@id", "a|b", "//", "text()", "a'b\"c", "story[1]", "./item",
             "a=b", "(x)"]


def id_style_map(style):
    cache = {}

    def f(x):
        if x in (NONE, "", None) or style == "plain":
            return x
        if x in cache:
            return cache[x]
        n = len(cache) + 1
        if style == "prefix":          # every id is a proper prefix of the next one
            y = "ID" + "x" * n
        elif style == "special":       # markup-significant and quoting characters
            y = "%s&<%d>\"'];" % (x, n)
        elif style == "case":          # ids that differ only in case
            base = "story"
            y = "".join(ch.upper() if (n >> i) & 1 else ch for i, ch in enumerate(base)) + ("" if n < 32 else str(n))
        elif style == "spaces":        # inner blanks and dots; never leading / trailing ones
            y = "a" + " " * n + "b.c"
        elif style in ("numeric", "words", "xpath", "url"):     # ids that look like numbers, keywords / tag names, path expressions
            pool = {"numeric": NUMERIC_IDS, "words": WORD_IDS, "xpath": XPATH_IDS, "url": URL_IDS}[style]
            if style == "url" and x.startswith("sch."):           # schema names are where URLs really occur: pairs that differ
                # by a trailing slash or by case, and malformed ones
                fixed = {"sch.A": 0, "sch.B": 1, "sch.C": 2, "sch.time": 3, "sch.ro": 4, "sch.item": 5}
                k = fixed.get(x, 5 + sum(1 for z in cache if z.startswith("sch.") and z not in fixed))
                pool, n = SCHEMA_URLS, k + 1
            y = pool[n - 1] if n <= len(pool) else "%s#%d" % (pool[n % len(pool)], n)
            if y in cache.values():
                y = "%s#%d" % (y, n)
        elif style == "blanks":        # ids that consist of white space only: distinct, and none of them is "blank"
            y = BLANK_IDS[n - 1] if n <= len(BLANK_IDS) else " " * (n + 4)
        elif style == "suffix":        # triples that agree after the last comma / semicolon
            k = (n + 2) // 3
            y = ("VT;clips,%d", "GFX;straps,%d", "%d")[n % 3] % k
        elif style == "verylong":      # ids of 300+ characters that differ only at the very end
            y = "V" * 300 + "%03d" % n
        elif style == "unicode":       # pairs that differ only by Unicode normalisation; characters outside the BMP
            y = ("caf\u00e9" if n % 2 else "cafe\u0301") + "\U0001F642%d" % ((n + 1) // 2)
        elif style == "trail":         # pairs that differ only by a trailing line feed
            y = "id%d" % ((n + 1) // 2) + ("" if n % 2 else "\n")
        else:                          # long ids with a common 60-character head
            y = "L" * 60 + "-%03d-" % n + x
        cache[x] = y
        return y
    return f


# the running order's own id ("RO1" in the model) as a quoted title, with blanks and path characters, or barely distinct
# from another one by Unicode normalisation
ROID_STYLES = [None, None, "Saturday's \"Late\" Show", "RO 1 / [rundown]", "caf\u00e9-RO", "ro1", "{RO1}*"]


def restyle_roid(obj, new):
    """spell the running order's id `new` in every <roID> node of an abstract value"""
    if isinstance(obj, dict):
        if obj.get("tag") == "roID" and obj.get("id") == "RO1":
            return dict(obj, id=new)
        return {k: restyle_roid(v, new) for k, v in obj.items()}
    if isinstance(obj, list):
        return [restyle_roid(x, new) for x in obj]
    return obj


def restyle(obj, f):
    """rename every id in an abstract value (nodes and references); tokens are left alone"""
    if isinstance(obj, dict):
        if obj.get("tag") in ("messageID", "roID"):      # a number / the running order's own id: not story or item ids
            return obj
        out = {}
        for k, v in obj.items():
            if k == "id" and isinstance(v, str):
                out[k] = f(v)
            else:
                out[k] = restyle(v, f)
        return out
    if isinstance(obj, list):
        return [restyle(x, f) for x in obj]
    return obj


class Gamma:
    def __init__(self, seed, style=None, idf=None):
        self.seed = seed
        self.idf = idf or (lambda x: x)       # the id style of this case (nested look-alike ids are spelled in it too)
        self.roid = lambda x: x               # how this case spells the running order's id (see ROID_STYLES)
        self.str_decl = False
        self.omit_item_id = False
        r = random.Random("%s|style" % seed)
        self.pretty = r.random() < 0.5 if style is None else style == "pretty"
        self.decl = r.random() < 0.3
        self.noise = r.random() < 0.3
        self.rich = True

    def rng(self, *key):
        h = hashlib.sha1(("%s|%s" % (self.seed, "|".join(map(str, key)))).encode()).hexdigest()
        return random.Random(int(h[:16], 16))

    # -------------------------------------------------------------------------------------
    def text(self, r):
        n = r.randint(1, 3)
        return " ".join(r.choice(WORDS) for _ in range(n))

    def chars(self, r, text):
        """character data: escaped, or now and then as a CDATA section (the same text to every parser)"""
        if r.random() < 0.12 and "]]>" not in text and "\r" not in text:
            return "<![CDATA[%s]]>" % text
        return escape(text)

    def rich_children(self, r, depth):
        """a list of XML fragments (elements with optional tails)"""
        out = []
        for _ in range(r.randint(0, 3 if depth < 3 else 1)):
            tag = r.choice(TAGS)
            attrs = ""
            for a in r.sample(ATTRS, r.randint(0, 2)):
                attrs += " %s=%s" % (a, quoteattr(self.text(r)))
            if r.random() < 0.1:          # the xml: prefix and a declared namespace prefix
                attrs += ' xml:lang="en-GB"' if r.random() < 0.5 else ' xmlns:v="urn:verif:ns" v:flag=%s' % quoteattr(self.text(r))
            kind = r.random()
            if kind < 0.2 and tag not in ("storyID", "itemID", "messageID"):
                el = "<%s%s/>" % (tag, attrs)
            elif tag in ("storyID", "itemID"):
                el = "<%s%s>%s</%s>" % (tag, attrs, escape(self.idf(r.choice(LIKELY_IDS))), tag)
            elif tag == "messageID":          # a number that is not the document's message id
                el = "<%s%s>%d</%s>" % (tag, attrs, r.choice([1, 5, 77, 99999, 2 ** 40]), tag)
            else:
                inner = ""
                if r.random() < 0.7:
                    inner += self.chars(r, self.text(r))
                if depth < 4 and r.random() < 0.5:
                    inner += "".join(self.rich_children(r, depth + 1))
                el = "<%s%s>%s</%s>" % (tag, attrs, inner, tag)
            tail = escape(self.text(r)) if (depth >= 2 and r.random() < 0.3) else ""
            out.append(el + tail)
        return out

    def marker(self, tok):
        return "<verifTok>%s</verifTok>" % escape(tok)

    # -------------------------------------------------------------------------------------
    def leaf(self, n, ctx=""):
        tag, nid, tok = n["tag"], n["id"], n["tok"]
        r = self.rng("leaf", tag, nid, tok)
        if tok == "=":
            if tag == "roID" and nid != NONE:
                nid = self.roid(nid)
            return "<%s/>" % tag if nid == NONE else "<%s>%s</%s>" % (tag, escape(nid), tag)
        if tok.startswith("e:") and tag != "p":       # an empty element (e.g. a blank <roEdStart/>)
            return "<%s/>" % tag if r.random() < 0.5 else "<%s></%s>" % (tag, tag)
        if tag == "roEdStart":
            k = int(tok.split(":")[1]) if tok.startswith("ed:") else 0
            pad = ("\n      ", "\n    ") if r.random() < 0.3 else ("", "")       # a value on a line of its own
            return "<roEdStart>%s2020-01-01T%02d:30:00%s</roEdStart>" % (pad[0], 10 + k, pad[1])
        if tag in ("item", "storyItem"):
            idpart = "<itemID/>" if nid == NONE else "<itemID>%s</itemID>" % escape(nid)
            omitted = False
            body = [idpart, "<itemSlug>%s</itemSlug>" % escape(self.text(r)), self.marker(tok)]
            # no itemID element at all: no id either.  Only where nothing looks items up afterwards (single transitions):
            # an item without the required <itemID> is not schema-shaped, and the library's lookups presuppose the element
            if self.omit_item_id and nid == NONE and r.random() < (0.6 if tag == "storyItem" else 0.3):
                body = body[1:]
                omitted = True
            if r.random() < 0.5:
                body.append("<objID>%s</objID>" % escape(self.text(r)))
            if r.random() < 0.5:
                body.append("<mosID>%s</mosID>" % escape(self.text(r)))
            # (a look-alike <itemID> child would BE the id of an item that has no itemID of its own)
            body += [c for c in self.rich_children(r, 2) if not (omitted and c.startswith("<itemID"))]
            tail = escape("after %s" % tok) if tok.startswith("xt:") else ""       # character data after the item
            return "<%s>%s</%s>%s" % (tag, self.join(body, 3), tag, tail)
        if tag == "mosExternalMetadata":
            parts = []
            if r.random() < 0.5:
                parts.append("<mosScope>PLAYLIST</mosScope>")
            if nid != NONE:
                parts.append("<mosSchema>%s</mosSchema>" % escape(nid))
            if tok.startswith("tmb:"):          # timing fields that are blank or not numbers
                pay = r.choice([["<TextTime/>", "<MediaTime>12</MediaTime>"], ["<StoryDuration>n/a</StoryDuration>"],
                                ["<StoryDuration>30</StoryDuration>", "<StoryEnded/>"],           # instants that are blank
                                ["<StoryStarted>tbc</StoryStarted>", "<TextTime>9</TextTime>"],   # ... or not instants
                                ["<StoryDuration>n/a</StoryDuration>", "<StoryStarted/>", "<StoryEnded></StoryEnded>"]]) \
                    + [self.marker(tok)]
            elif tok.startswith("tm:"):
                dur = 1 + (int(hashlib.sha1(tok.encode()).hexdigest()[:4], 16) % 40)
                pay = ["<StoryDuration>%d</StoryDuration>" % dur] if r.random() < 0.5 else \
                      ["<TextTime>%d</TextTime>" % (dur // 2), "<MediaTime>%d</MediaTime>" % (dur - dur // 2)]
                pay.append(self.marker(tok))
            else:
                pay = [self.marker(tok)] + self.rich_children(r, 3)
            parts.append("<mosPayload>%s</mosPayload>" % self.join(pay, 4))
            return "<mosExternalMetadata>%s</mosExternalMetadata>" % self.join(parts, 3)
        if tag == "p":
            if tok.startswith("e:"):            # an empty paragraph
                return "<p/>" if r.random() < 0.5 else "<p></p>"
            if tok.startswith("w:"):            # a whitespace-only paragraph
                return "<p>  \t </p>"
            return "<p>%s</p>" % self.chars(r, self.text(r) + " " + tok)
        if tag.startswith("{"):            # an element of another namespace that looks like a story / an item and spells a live id
            local = tag.split("}")[1]
            ghost = self.idf("S2" if local == "story" else "I2")
            return '<arc:%s xmlns:arc="%s"><%sID>%s</%sID><%sSlug>%s</%sSlug>%s</arc:%s>' % (
                local, tag[1:].split("}")[0], local, escape(ghost), local, local, escape(self.text(r)), local, self.marker(tok), local)
        if tag == "roDelete":
            return "<roDelete><roID>%s</roID>%s</roDelete>" % (escape("RO-other" if tok.endswith(".foreign") else self.roid("RO1")),
                                                               self.marker(tok))
        # any other metadata leaf: text, sometimes attributes and children
        attrs = ""
        if r.random() < 0.4:
            attrs = " %s=%s" % (r.choice(ATTRS), quoteattr(self.text(r)))
        inner = escape(self.text(r) + " " + tok)
        if r.random() < 0.3:
            inner += "".join(self.rich_children(r, 3))
        return "<%s%s>%s</%s>" % (tag, attrs, inner, tag)

    def join(self, parts, depth):
        if self.noise:
            # comments and processing instructions between elements: not part of the document's content
            rn = self.rng("noise", depth, len(parts), parts[0][:40] if parts else "")
            noisy = []
            for x in parts:
                k = rn.random()
                if k < 0.08:
                    noisy.append("<!-- <story><storyID>S1</storyID></story> -->" + x)
                elif k < 0.14:
                    noisy.append("<?verif item=\"I1\"?>" + x)
                else:
                    noisy.append(x)
            parts = noisy
        if not self.pretty:
            return "".join(parts)
        ind = "\n" + "  " * depth
        return ind + ind.join(parts) + "\n" + "  " * (depth - 1)

    def attrs(self, tok):
        """attributes of a container element whose token says it has some ("a:...")"""
        if isinstance(tok, str) and tok.startswith("a:"):
            return " verif=%s mode=%s" % (quoteattr(tok), quoteattr("x & <y>"))
        return ""

    def story(self, n, tag="story", depth=3):
        # a story element with attributes of its own is also followed by character data (mixed content in <roCreate>
        # or in the message): text after an element belongs to that element and travels with it
        marked = tag == "story" and isinstance(n["tok"], str) and n["tok"].startswith("a:")
        tail = escape("after %s" % n["tok"]) if marked else ""
        lead = escape("inside %s " % n["tok"]) if marked else ""          # character data of the container itself
        return "<%s%s>%s%s</%s>%s" % (tag, self.attrs(n["tok"]), lead, self.join([self.leaf(k) for k in n["kids"]], depth), tag, tail)

    def child(self, n, depth=3):
        if n["tag"] == "story":
            return self.story(n, depth=depth)
        return self.leaf(n)

    def doc(self, inner):
        head = ""
        if self.decl:
            # a document handed over as text is already decoded: whatever encoding its declaration names does not apply
            # (only where str_decl says the text goes to the library as a str; bytes and files get a truthful declaration)
            enc = self.rng("decl").choice(["UTF-8", "UTF-8", "utf-8", "ISO-8859-1", "windows-1252", "US-ASCII"]) \
                if self.str_decl else "UTF-8"
            head = '<?xml version="1.0" encoding="%s"?>\n' % enc
        return head + inner

    # -------------------------------------------------------------------------------------
    def ro(self, ro):
        parts = []
        for c in ro["root"]:
            if c["tag"] == "roCreate":
                lead = escape("inside %s " % c["tok"]) if isinstance(c["tok"], str) and c["tok"].startswith("a:") else ""
                parts.append("<roCreate%s>%s%s</roCreate>" % (self.attrs(c["tok"]), lead, self.join([self.child(k) for k in ro["kids"]], 2)))
            elif c["tag"] == "mosromgrmeta":
                parts.append("<mosromgrmeta>%s</mosromgrmeta>" % self.join([self.leaf(k) for k in c["kids"]], 2))
            else:
                parts.append(self.leaf(c))
        return self.doc("<mos>%s</mos>" % self.join(parts, 1))

    def refel(self, tag, ref):
        if ref["shape"] == "absent":
            return []
        if ref["shape"] == "blank":
            return ["<%s/>" % tag]
        return ["<%s>%s</%s>" % (tag, escape(ref["id"]), tag)]

    def msg(self, m, message_id=2000, ro_id="RO1", loose_mid=False, late_mid=False):
        cls = m["cls"]
        # the envelope of a message is not the envelope of the running order: vary its header elements
        rh = self.rng("envelope", cls, message_id)
        head = ["<mosID>mos.verif</mosID>"]
        if rh.random() < 0.6:
            head.append("<ncsID>ncs.verif</ncsID>")
        # a message id is a number: leading zeros or surrounding blanks do not change it
        mid_text = ("%07d" % message_id) if rh.random() < 0.25 else (" %d " % message_id) if rh.random() < 0.15 else "%d" % message_id
        # merging never needs the message id (only collections sort by it): with loose_mid it may be missing, blank or
        # not a number, and the merge - or its refusal - must be the same
        x = rh.random() if loose_mid else 1.0
        if x < 0.08:
            head.append("<messageID/>")
        elif x < 0.16:
            head.append("<messageID>n/a-%d</messageID>" % message_id)
        elif x >= 0.24:
            head.append("<messageID>%s</messageID>" % mid_text)
        if rh.random() < 0.3:
            head.append("<mosMsgTime>2020-01-01T10:00:00</mosMsgTime>")
        if rh.random() < 0.2:
            head.insert(0, "<mosDevice>dev &amp; co</mosDevice>")
        roid = "<roID>%s</roID>" % escape(self.roid(ro_id))
        kids = lambda: [self.child(c, depth=3) for c in m["carried"]]
        ea = None
        if cls == "StorySend":
            parts = [self.leaf(k) for k in m["hdr"]]
            if m["bodyPos"] > 0:
                body = "<storyBody>%s</storyBody>" % self.join([self.leaf(k) for k in m["body"]], 3)
                parts.insert(m["bodyPos"] - 1, body)
            base = "<roStorySend%s>%s</roStorySend>" % (self.attrs(m.get("stok")), self.join(parts, 2))
        elif cls == "StoryAppend":
            base = self.wrap("roStoryAppend", [roid] + kids())
        elif cls == "StoryDelete":
            base = self.wrap("roStoryDelete", [roid] + sum([self.refel("storyID", r) for r in m["ids"]], []))
        elif cls == "StoryInsert":
            base = self.wrap("roStoryInsert", [roid] + self.refel("storyID", m["story"]) + kids())
        elif cls == "StoryReplace":
            base = self.wrap("roStoryReplace", [roid] + self.refel("storyID", m["story"]) + kids())
        elif cls == "StoryMove":
            base = self.wrap("roStoryMove", [roid] + sum([self.refel("storyID", r) for r in m["ids"]], []))
        elif cls == "ItemDelete":
            base = self.wrap("roItemDelete", [roid] + self.refel("storyID", m["story"])
                             + sum([self.refel("itemID", r) for r in m["ids"]], []))
        elif cls == "ItemInsert":
            base = self.wrap("roItemInsert", [roid] + self.refel("storyID", m["story"])
                             + self.refel("itemID", m["item"]) + kids())
        elif cls == "ItemReplace":
            base = self.wrap("roItemReplace", [roid] + self.refel("storyID", m["story"])
                             + self.refel("itemID", m["item"]) + kids())
        elif cls == "ItemMoveMultiple":
            base = self.wrap("roItemMoveMultiple", [roid] + self.refel("storyID", m["story"])
                             + sum([self.refel("itemID", r) for r in m["ids"]], []))
        elif cls == "MetaDataReplace":
            base = self.wrap("roMetadataReplace", [self.leaf(c) for c in m["carried"]])
        elif cls == "RunningOrderReplace":
            base = self.wrap("roReplace", kids())
            if self.attrs(m.get("stok")):
                base = base.replace("<roReplace", "<roReplace" + self.attrs(m.get("stok")), 1)
        elif cls == "RunningOrderEnd":
            base = self.leaf(m["carried"][0]) if m["carried"] else "<roDelete>%s</roDelete>" % roid
        elif cls == "ReadyToAir":
            base = self.wrap("roReadyToAir", [roid, "<roAir>READY</roAir>"])
        elif cls.startswith("EA"):
            op = {"Replace": "REPLACE", "Delete": "DELETE", "Insert": "INSERT", "Swap": "SWAP", "Move": "MOVE"}
            opname = [v for k, v in op.items() if cls.endswith(k)][0]
            level_item = "Item" in cls
            tparts = self.refel("storyID", m["story"]) + self.refel("itemID", m["item"])
            # element_target is absent only when the story reference is absent
            target = [] if m["story"]["shape"] == "absent" and not tparts else \
                     [self.wrap("element_target", tparts, 3)]
            if m["carried"]:
                sparts = kids()
            else:
                sparts = sum([self.refel("itemID" if level_item else "storyID", r) for r in m["ids"]], [])
            source = [self.wrap("element_source", sparts, 3)]
            inner = self.join([roid] + target + source, 2)
            base = '<roElementAction operation="%s">%s</roElementAction>' % (opname, inner)
        else:
            raise ValueError(cls)
        tail_parts = []
        if late_mid or rh.random() < 0.1:          # <messageID> (and what follows it) after the message element
            k = [i for i, h in enumerate(head) if h.startswith("<messageID")]
            if k:
                head, tail_parts = head[:k[0]], head[k[0]:]
        return self.doc("<mos>%s</mos>" % self.join(head + [base] + tail_parts, 1))

    def wrap(self, tag, parts, depth=2):
        return "<%s>%s</%s>" % (tag, self.join(parts, depth), tag) if parts else "<%s/>" % tag
