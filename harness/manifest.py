"""Regenerates /verif/MANIFEST.json from the table below:  /venv/bin/python -m harness.manifest"""
import json
import os

VERIF = os.path.dirname(os.path.dirname(os.path.abspath(__file__)))

BASELINE = ("cd /repo && /venv/bin/python -m pytest -ra -q -p no:cacheprovider --timeout=900 "
            "--continue-on-collection-errors")

MERGE_NOTE = ("Trusted: TLC; ElementTree as the reference reading of XML; harness/project.py (alpha, content digests); "
              "harness/render.py (gamma, token<->digest binding). Exhaustive inside the stated bound only; content behind "
              "tokens is sampled, not enumerated.")

CLAIMED = {
    "C01": dict(
        text="TLC enumerates every running order (0..3/4 stories x metadata layout) x every story-level message inside the bound "
             "from spec/MC_merge.tla, checks the declarative ordering theorems (MosTheorems) on the spec's own Merge, every "
             "transition is replayed into the real code, and TLC (Trace_Merge) judges each recorded step through the story-ID lens. "
             "Histories: all pairs over the full MosLife alphabet and every triple over the story alphabet on one live object; "
             "beyond the bound 2 000 / 40 000 seeded random transitions (12 stories, lists up to 6); and every merge the "
             "repository's own tests perform, recorded by the tracer - all judged by the same TLC trace spec.",
        design="6/C01", technique="TLA+ model (MosMerge) checked by TLC; exhaustive transition replay into the code; TLC trace judge"),
    "C02": dict(
        text="Same scheme at item level: addressed story with 0..3/4 items (with/without interleaved paragraphs) and a second story "
             "with the same item IDs x every item-level message inside the bound; judged through the item-ID lens of the addressed story. "
             "Plus histories (every triple over the item alphabet incl. roReplace / roStorySend), random transitions beyond the "
             "bound and the traced repository test suite.",
        design="6/C02", technique="TLA+ model checked by TLC; exhaustive transition replay; TLC trace judge"),
    "C03": dict(
        text="All story-, item- and metadata-level transitions of the bounded model replayed into the code; TLC compares the sequence of "
             "(tag, id, content digest) of every node the message does not operate on, at both levels, before and after.",
        design="6/C03", technique="TLA+ model checked by TLC; exhaustive transition replay; TLC trace judge (un-named lens)"),
    "C04": dict(
        text="Structure of payloads (number carried, storyBody position, body composition) enumerated by TLC; content behind every token "
             "sampled by gamma (depth, attributes, mixed text, special characters) and compared by digest: every carried node must occur "
             "in the result, roStorySend as Flatten(payload) computed in TLA+.",
        design="6/C04", technique="TLA+ model checked by TLC; transition replay with sampled content; TLC trace judge"),
    "C05": dict(
        text="Every failing way inside the bound (k-th unresolvable ID of an n-list, unknown/blank target, unknown story, equal swap "
             "operands) is a TLC transition replayed into the code; a non-ok status must leave the abstract state and str(ro) unchanged. Includes the metadata family "
             "(roMetadataReplace with schema names spelled as URLs, malformed ones too) and random transitions with ID lists of 5-13 entries.",
        design="6/C05", technique="TLA+ model checked by TLC; exhaustive transition replay; TLC trace judge"),
    "C06": dict(
        text="For every subset of an n<=2/3 list being unresolvable/duplicate: TLC computes the allowed (status, warnings, effect) "
             "combinations; the recorded warnings, the set of elements present and whether each listed element moved must match one. Containers that "
             "hold an ID twice (layout `dup`) are enumerated for the delete classes and judged by the count-based clause `acted_upon` "
             "(the k-th mention of an ID removes one such element while one is left, else exactly one warning); a foreign exception "
             "where every allowed result reports something fails `reported` too.",
        design="6/C06", technique="TLA+ model checked by TLC; exhaustive transition replay; TLC trace judge"),
    "C07": dict(
        text="spec/MosLife.tla: TLC checks Completed <=> a roDelete was merged (history variable), terminality as an action property and the "
             "envelope invariants over every history up to depth 3/4 of a 14-message alphabet and over -simulate behaviours; every "
             "behaviour is replayed on live objects (merge, re-merge, serialise-and-reload) and each step judged by TLC: completion "
             "record = the merged roDelete, content unchanged, every later message of every class rejected with "
             "MosCompletedMergeError and no change, reloaded object is a RunningOrder with the same completed flag.",
        design="6/C07", technique="TLA+ history model checked by TLC (invariants + action property); behaviour replay on live objects; TLC trace judge"),
    "C13": dict(
        text="Behaviours of MosLife (two live running orders, message objects kept alive and re-merged) replayed on real objects: after "
             "every step every message object must serialise as at parse time, a re-merged object must give a result allowed by "
             "Merge for its ORIGINAL content, and each object's pre-state must equal its previous post-state (no change outside "
             "its own steps); no Element object and no attribute dictionary may be reachable from two live trees (MosAlias!NoSharedNodes observed "
             "on the real heap, clause msg_unshared); a fifth of the merges go through the documented msg.merge(ro) instead of `+`; every history merge is repeated on freshly read "
             "copies of both contents and must give the same status, warnings and serialisation (clause history_free).",
        design="6/C13", technique="TLA+ history model; behaviour replay on live objects with aliasing observations; TLC trace judge (continuity)"),
    "C14": dict(
        text="Envelope invariants are TLC invariants of MosLife; on the code every visited state of every replayed behaviour is "
             "serialised and re-read (reload step): same abstract tree (content digests), same serialisation, RunningOrder class, "
             "same completed flag; envelope clause judged on every merge step; the library's reading of every rendered document must be "
             "the reference parser's (parse_faithful_ro). Rendered text includes CR / CRLF / C1 controls as character references, "
             "CDATA, comments, processing instructions, namespaced and xml: attributes, text after elements.",
        design="6/C14", technique="TLA+ history model checked by TLC; behaviour replay with reload steps; TLC trace judge"),
    "C08": dict(
        text="spec/MosClassify.tla gives the class / library exception of every abstract document; TLC checks totality and that the "
             "outcome is a function of the message element alone over the bounded document set (16 tags x childless, 7 operations x "
             "5 target x 7 source shapes, a repeated later target / source block of another shape, siblings and nested look-alikes, "
             "5 malformed kinds); every document is rendered and "
             "classified from str, bytes and file under warning filters default/error and in a fresh python -W error interpreter; "
             "TLC (Trace_Classify) judges the recorded outcomes.",
        design="6/C08", technique="TLA+ case-analysis model checked by TLC; exhaustive replay into the classifier; TLC trace judge",
        note="Trusted: TLC; ElementTree; harness/classify.py render_doc. Documents with two recognised message elements are outside the claim."),
    "C09": dict(
        text="spec/MC_coll.tla models construct/validate/merge-loop as a state machine; TLC checks Expected() (fold in ascending id "
             "order, strict stops at first failure, non-strict one warning per failure) and liveness (every run terminates; non-strict "
             "reaches done) for every ordered list up to 3/4 documents x strict x allow; every list is run through the real "
             "constructors and merge; recorded runs are judged by TLC (Trace_Coll) and every `ro += msg` inside mc.merge() by "
             "Trace_Merge; the result is also compared with a hand fold over freshly parsed messages. Message IDs are rendered through strictly "
             "increasing maps (negative, 16-digit, 11-digit) and mapped back before TLC judges; documents are encoded per document "
             "(UTF-8 / ISO-8859-1 / UTF-16); bulk collections of 12 and 70 (thorough: up to 130) messages in five supply orders.",
        design="6/C09", technique="TLA+ state machine checked by TLC (safety + liveness); replay of every bounded collection; TLC trace judges",
        note="Trusted: TLC; ElementTree; harness alpha/gamma; FakeS3; tracer wrapper. Message kinds ok/warn/fail are realised by StoryAppend / StoryDelete(unknown) / StoryReplace(unknown)."),
    "C10": dict(
        text="All permutations of all document subsets (ids of mixed width 8..1000) are distinct TLC initial states; TLC checks that "
             "construction is permutation independent and numerically ascending; each permutation is built through the three "
             "constructors and the reader order and merged result compared with the spec's order / the hand fold. Bulk lists of 12 / 70 "
             "messages (ascending, descending, rotated, straggler, interleaved) and ID styles with negative / 16-digit / 11-digit IDs.",
        design="6/C10", technique="TLA+ model checked by TLC over all permutations; replay; TLC trace judge"),
    "C11": dict(
        text="TLC checks staged validation = the four-clause declarative predicate for every list in the bound (incl. the empty list, "
             "0..2 roCreate, 0..2 roDelete, mixed roIDs) x allow_incomplete; each case is constructed in-process through three "
             "constructors, through the documented constructor called twice on one caller-owned list, and in a fresh `python -O` "
             "interpreter; accepted/InvalidMosCollection, ro and readers judged by TLC.",
        design="6/C11", technique="TLA+ model checked by TLC; replay incl. python -O subprocess; TLC trace judge"),
    "C12": dict(
        text="The `contained` clause over all bounded transitions of all 24 classes (a schema-shaped message never ends in a built-in "
             "exception), `classify_contained` over every well-formed document of MC_classify, and `coll_contained` over every bounded "
             "collection run (non-strict merges run to the end; also a TLC liveness property of MC_coll).",
        design="6/C12", technique="TLA+ model checked by TLC; exhaustive transition replay; TLC trace judge"),
}

OBS_NOTE = ("Trusted: TLC; ElementTree; harness/project.py view_ro_xml (direct read of timing/body data from the XML); "
            "harness/observe.py (accessor caller). Numbers restricted to quarter-second multiples and zone-less ISO times; "
            "float rounding / other date formats are not decided by the model.")
CLAIMED.update({
    "C15": dict(
        text="spec/MosObserve.tla defines every accessor result as a function of the document view; TLC enumerates views (0..2/3 "
             "stories x 11 timing shapes incl. metadata without payload and no metadata x roEdStart; all paragraph texts up to length "
             "4/5 over 8 characters; all bodies up to 3/4 elements); every view is rendered, every documented accessor of "
             "RunningOrder/Story/Item is called and TLC (Trace_Observe) judges: nothing raised, ids/slugs/items agree with the XML. "
             "The same observation step is taken inside MosLife behaviours (states reached by merges, incl. stories without timing).",
        design="6/C15", technique="TLA+ functional model checked by TLC; exhaustive replay of bounded views + observation steps in behaviour replay; TLC trace judge",
        note=OBS_NOTE),
    "C16": dict(
        text="Duration precedence, prefix-sum offsets, start/end derivation and running-order aggregates are TLA+ operators; TLC "
             "checks the identities (sums, chaining, explicit-wins) on the spec for every timing view and judges the values the real "
             "accessors return for every rendered view and for observation steps inside behaviours (after reordering/inserting/"
             "replacing/deleting merges).",
        design="6/C16", technique="TLA+ arithmetic model over integers checked by TLC; replay of bounded views and behaviours; TLC trace judge",
        note=OBS_NOTE),
    "C17": dict(
        text="Strip / technical-note / script / body / concatenation are TLA+ operators over code-point sequences; TLC enumerates "
             "every paragraph string up to length 4/5 over {space, tab, nbsp, ( ) < > a} and every body up to 3/4 elements over "
             "{p, empty p, bracketed p, item, other}; the real Story/RunningOrder script and body are judged against them, also at "
             "observation steps inside behaviours (notably after roStorySend).",
        design="6/C17", technique="TLA+ string model checked by TLC; exhaustive replay of bounded texts/bodies; TLC trace judge",
        note=OBS_NOTE),
})

CLAIMED.update({
    "C18": dict(
        text="spec/MC_sources.tla models the paginated listing as a page-by-page state machine; TLC checks result = every key under the "
             "prefix with the suffix for every bucket up to 4/5 keys x page size x prefix mode, and liveness; get_mos_files is run "
             "against an in-memory paginator for each and judged by TLC (Trace_Sources). Loading the same content from file/str/"
             "bytes/S3 object/MosReader must give one class and one serialisation; every bounded collection is built through the three "
             "constructors and compared with the hand fold; readers report id/roID/class of fresh equal objects.",
        design="6/C18", technique="TLA+ listing state machine checked by TLC; replay against fake S3; differential source comparison; TLC trace judge",
        note="Trusted: TLC; ElementTree; ListingFake / FakeS3 (shaped like boto3 responses). Real S3 unreachable offline. The source-"
             "equivalence half is a differential check with little TLA+ content."),
    "C19": dict(
        text="spec/MC_cli.tla: the detect/inspect loop as a state machine (every listed file processed in order - liveness) over every "
             "file list up to 2/3 of 8 file kinds plus one list per class x 6 source modes (-f, -b/-p, -b/-p/-s, -b/-k, -b alone, "
             "nothing: usage error = status 2); MergeRcMode from MosCollection!Accepts/Expected for every collection x --incomplete x "
             "--non-strict x -o x source mode. mosromgr.cli.main(argv) is called in-process on real files; TLC "
             "(Trace_Cli) judges markers, order, exit status, and that the bytes written equal the library's merged serialisation.",
        design="6/C19", technique="TLA+ state machine checked by TLC (safety + liveness); replay through cli.main; TLC trace judge",
        note="Trusted: TLC; harness/cli.py (file rendering, line parsing); the in-memory bucket for the -b/-p/-s/-k source modes."),
    "C20": dict(
        text="spec/MosExpose.tla gives, for every abstract message, the target story/item, the source IDs in message order and the "
             "carried elements each class must expose; every distinct message of the bounded generators (24 classes, blank/unknown/"
             "missing targets, 1..2/3 sources, compact or pretty XML) is parsed, its documented accessors and inspect() are "
             "exercised and TLC (Trace_Expose) judges the observations.",
        design="6/C20", technique="TLA+ functional model; exhaustive replay of bounded messages; TLC trace judge",
        note="Trusted: TLC; harness/expose.py accessor table; alpha/gamma. inspect() labels are not judged, only that it does not raise and mentions every id it names."),
})

PENDING_REASON = "check under construction (DESIGN.md section 11); will be claimed once its TLA+ binding is built"


def build():
    props = [json.loads(l)["id"] for l in open(os.path.join(VERIF, "properties.jsonl"))]
    checks = []
    for p in props:
        if p not in CLAIMED:
            continue
        c = CLAIMED[p]
        checks.append({
            "property_id": p,
            "quick_cmd": "./check %s --tier quick" % p,
            "thorough_cmd": "./check %s --tier thorough" % p,
            "evidence_file": "/verif/evidence/%s.json" % p,
            "replay_cmd_template": "./check replay {path}",
            "engine": "tlc",
            "level_claimed": {"category": c.get("level", "model_checking"), "text": c["text"],
                              "design_ref": "DESIGN.md section " + c["design"]},
            "level_note": c.get("note", MERGE_NOTE),
            "technique": c["technique"],
        })
    m = {
        "version": 1,
        "setup_cmd": "./setup.sh",
        "hooks": {
            "guard": "MOSROMGR_VERIF",
            "enable": "no in-tree hooks: the abstract state is fully visible through ro.xml; the out-of-tree tracer "
                      "(/verif/harness/tracer.py) wraps the public calls when MOSROMGR_VERIF=1",
            "baseline_off_cmd": BASELINE,
            "source_commits": [],
            "add_only": True,
        },
        "engines": [{"name": "tlc", "path": "/verif/spec", "serves_properties": sorted(CLAIMED),
                     "kind_free_text": "explicit TLA+ specification checked with TLC (exhaustive bounded configs, -simulate, trace "
                                       "validation) and bound to the code by transition/behaviour replay and trace judging"}],
        "checks": checks,
        "not_applicable": [{"property_id": p, "reason": PENDING_REASON} for p in props if p not in CLAIMED],
        "notes": "Entry point ./check <Cxx> [--tier quick|thorough]; ./check replay <file>; ./check selftest. "
                 "known_findings.json lists fixed and known findings.",
    }
    with open(os.path.join(VERIF, "MANIFEST.json"), "w") as f:
        json.dump(m, f, indent=1)


if __name__ == "__main__":
    build()
