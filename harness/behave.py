"""Binding B: behaviours of spec/MosLife.tla replayed on LIVE objects of the real library.

One RunningOrder object per spec object, message objects kept alive and re-used when the spec
says `remerge`, `reload` really does MosFile.from_string(str(ro)).  Every step becomes an event
(pre/post projected from ro.xml) judged by TLC (spec/Trace_Merge.tla), which also checks that each
object's recorded pre-state equals its previous post-state (continuity)."""
import warnings
from xml.etree import ElementTree

from . import execute, project
from .execute import exc
from .execute import Machinery, add, parse_msg, parse_ro
from .render import Gamma

EMPTY_MSG = project.empty_msg("none")


def base_event(eid, obj, kind):
    return {"id": eid, "obj": obj, "k": kind, "msg": EMPTY_MSG, "status": "ok", "warns": [],
            "ser_eq": True, "intact": True, "cls": "", "completed_eq": True, "acc_eq": True, "expose_intact": True, "unshared": True, "fresh_eq": True,
            "completed_acc": False}


def fresh_pair(parse_ro, parse_msg, ro_text, msg_text):
    """a freshly read copy of the running order and of the message (None when the serialisation does not read back to
    itself - that is C14's business - or cannot be read)"""
    try:
        with warnings.catch_warnings():
            warnings.simplefilter("ignore")
            ro = parse_ro(ro_text)
            if str(ro) != ro_text:
                return None
            return ro, parse_msg(msg_text)
    except Exception:  # noqa: BLE001
        return None


def accessor_view(ro):
    """what the library's own accessors say about a running order (for comparing a live object with its reload)"""
    def get(fn):
        try:
            return fn()
        except Exception as e:  # noqa: BLE001
            return "raised:" + type(e).__name__
    return {"stories": get(lambda: [s.id for s in ro.stories]),
            "items": get(lambda: [[i.id for i in s.items] for s in ro.stories]),
            "slugs": get(lambda: [s.slug for s in ro.stories]),
            "completed": get(lambda: bool(ro.completed)), "mid": get(lambda: ro.message_id),
            "roid": get(lambda: ro.ro_id), "slug": get(lambda: ro.ro_slug if ro.base_tag.find("roSlug") is not None else None),
            "script": get(lambda: list(ro.script))}


def run_behaviour(bid, beh, seed, observe=None, expose=None):
    g = Gamma("%s|%s" % (seed, bid))
    g.str_decl = True
    from .render import ID_STYLES, id_style_map, restyle
    style = g.rng("idstyle").choice(ID_STYLES)
    if style != "plain":              # one id style for the whole behaviour (see render.py)
        f = id_style_map(style)
        beh = restyle(beh, f)
        g.idf = f
    from .render import ROID_STYLES, restyle_roid
    new_roid = g.rng("roidstyle").choice(ROID_STYLES)
    if new_roid:
        beh = restyle_roid(beh, new_roid)
        g.roid = lambda x: new_roid if x == "RO1" else x
    table = {}
    objs = {}
    events = []
    init = beh["init"]
    # TLC prints a function with domain 1..n as a JSON array
    if isinstance(init, list):
        init = {str(i + 1): v for i, v in enumerate(init)}
    for o, shape in init.items():
        ro_text = g.ro(shape)
        try:
            ro = parse_ro(ro_text)
        except Exception:  # noqa: BLE001 - the reference parser reads this text
            return [execute.parse_event("%s.0.o%s" % (bid, o), "ro")]
        if not execute.same_reading(ro, ro_text):
            return [execute.parse_event("%s.0.o%s" % (bid, o), "ro")]
        if not project.bind(shape, project.project_ro(ro), table):
            raise Machinery("gamma/alpha round trip failed for initial running order of %s" % bid)
        objs[int(o)] = ro
        execute.completed_of(ro)          # the flag is read from the start: it must follow later merges
    live = {}     # step index -> (message object, its serialisation right after parsing)
    if observe is not None:
        for o in sorted(objs):          # observe the initial state too: later results must not be remembered from here
            oe = base_event("%s.0.o%d" % (bid, o), o, "observe")
            oe["pre"] = oe["post"] = project.rename(project.project_ro(objs[o]), table)
            oe["obs"] = observe(objs[o])
            events.append(oe)

    def snap(o):
        return project.rename(project.project_ro(objs[o]), table)

    for idx, step in enumerate(beh["steps"], 1):
        o, kind = step["obj"], step["k"]
        eid = "%s.%d" % (bid, idx)
        ro = objs[o]
        ev = base_event(eid, o, kind)
        ev["pre"] = snap(o)
        if kind in ("merge", "remerge"):
            mabs = step["msg"]
            ev["msg"] = mabs
            if kind == "merge":
                text = g.msg(mabs, message_id=2000 + idx, loose_mid=all(execute.completed_of(r) for r in objs.values()))      # (the object may be merged again, into another running order)
                proj = project.project_msg_xml(mabs["cls"], ElementTree.fromstring(text))
                if not project.bind(mabs, proj, table):
                    raise Machinery("gamma/alpha round trip failed for message %s" % eid)
                try:
                    m = parse_msg(text)
                except Exception as e:  # noqa: BLE001
                    if type(e).__name__ == "MosInvalidXML":        # the text is well-formed: the reference parser has read it
                        events.append(execute.parse_event(eid, "msg"))
                        return events
                    ev.update(post=ev["pre"], status=("unclassified" if isinstance(e, exc.MosRoMgrException) else "crash:" + type(e).__name__),
                              completed_acc=execute.completed_of(ro))
                    events.append(ev)
                    continue
                if not execute.same_reading(m, text):
                    events.append(execute.parse_event(eid, "msg"))
                    return events
                # (every other message is looked at only after its first merge: reading `msg.story` & co beforehand may prepare what
                # the merge would otherwise do itself)
                live[idx] = (m, str(m), expose(m, mabs["cls"]) if expose and idx % 2 == 0 else None, text)
            else:
                if step["ref"] not in live:
                    continue
                m = live[step["ref"]][0]
            before = str(ro)
            direct = g.rng("direct", idx).random() < 0.2
            shadow = fresh_pair(parse_ro, parse_msg, before, live[idx][3] if kind == "merge" else live[step["ref"]][3])
            res, status, warns, err = add(ro, m, direct=direct)
            if status == "ok":
                if isinstance(res, execute.RunningOrder):
                    objs[o] = res
                else:
                    status = "crash:BadReturn"
            ev.update(post=snap(o), status=status, warns=warns, ser_eq=(str(ro) == before),
                      intact=all(str(mm) == s0 for mm, s0, _, _t in live.values()),
                      unshared=not (any(execute.shares(r, mm) for r in objs.values() for mm, _, _, _t in live.values())
                                    or any(execute.shares(objs[x], objs[y]) for x in objs for y in objs if x < y)),
                      completed_acc=execute.completed_of(objs[o]))
            if shadow is not None:
                # the same contents, freshly read: the outcome may depend on nothing else (no memory of earlier lookups)
                fres, fstatus, fwarns, _ = add(shadow[0], shadow[1], direct=direct)
                fout = fres if fstatus == "ok" and isinstance(fres, execute.RunningOrder) else shadow[0]
                ev["fresh_eq"] = (fstatus, fwarns, str(fout)) == (status, warns, str(objs[o]))
            if expose:
                ev["expose_intact"] = all(expose(mm, type(mm).__name__) == x0 for mm, _, x0, _t in live.values() if x0 is not None)
                for j, (mm, s0, x0, t0) in list(live.items()):
                    if x0 is None:
                        live[j] = (mm, s0, expose(mm, type(mm).__name__), t0)
        elif kind == "reload":
            text = str(ro)
            try:
                with warnings.catch_warnings():
                    warnings.simplefilter("ignore")
                    ro2 = execute.MosFile.from_string(text)
                ev["cls"] = type(ro2).__name__
                ev["completed_eq"] = bool(ro2.completed) == bool(ro.completed)
                ev["ser_eq"] = str(ro2) == text
                ev["acc_eq"] = accessor_view(ro2) == accessor_view(ro)
                ev["post"] = project.rename(project.project_ro_xml(ro2.xml), table)
                if isinstance(ro2, execute.RunningOrder) and idx % 2 == 0 and ev["post"] == ev["pre"]:
                    objs[o] = ro2          # carry on with the reloaded object every other time
            except Exception as e:  # noqa: BLE001
                ev.update(post=ev["pre"], status="crash:" + type(e).__name__, cls="", completed_eq=False)
        elif kind == "observe":
            if observe is None:
                continue
            ev["post"] = ev["pre"]
            ev["obs"] = observe(objs[o])
        events.append(ev)
        if observe is not None and kind != "observe":
            # observe after every step: accessor results must follow the state (nothing may be cached across merges)
            oe = base_event(eid + ".o", o, "observe")
            oe["pre"] = oe["post"] = snap(o)
            oe["obs"] = observe(objs[o])
            events.append(oe)
    for o in sorted(objs):
        ev = base_event("%s.end%d" % (bid, o), o, "idle")
        ev["pre"] = ev["post"] = snap(o)
        events.append(ev)
    return events
