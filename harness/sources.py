"""C18: S3 listing against spec/MC_sources.tla (fake paginator), and file / str / bytes / S3-object
loading of the same content (class + serialisation must agree)."""
import hashlib
import json
import logging
import os
import pathlib
import random
import shutil
import sys
import tempfile
import warnings

from . import cli, collection, pipeline, tlc
from .render import Gamma


class ListingFake:
    """answers like the S3 service: only keys under Prefix, in key order, PageSize per page; a listing without results
    is a single page without 'Contents'"""

    def __init__(self, keys, size):
        self.keys, self.size = keys, size

    def get_paginator(self, name):
        assert name == "list_objects"
        return self

    def paginate(self, Bucket, Prefix=""):
        served = [k for k in self.keys if k.startswith(Prefix or "")]
        if not served:
            yield {"IsTruncated": False, "Name": Bucket}
            return
        for i in range(0, len(served), self.size):
            yield {"Contents": [{"Key": k, "Size": 1} for k in served[i:i + self.size]], "Name": Bucket}


def key_name(k):
    sfx = {"end": ".mos.xml", "mid": ".mos.xml.bak", "none": ".txt", "upper": ".MOS.XML"}[k["suf"]]
    return "%s/%02d%s" % ("run1" if k["under"] else "zzz", k["n"], sfx)


def list_case(cid, b):
    from mosromgr.utils import s3 as s3mod
    names = [key_name(k) for k in b["keys"]]
    back = {key_name(k): k["n"] for k in b["keys"]}
    out = []
    pk = b.get("prefixKey", 0)
    hows = [("key", dict(prefix=names[pk - 1]))] if pk else \
        [("prefix", dict(prefix="run1/"))] if b["prefixGiven"] else [("empty", dict(prefix="")), ("none", dict())]
    for how, kw in hows:
        for sfx in ("default", "explicit", "upper"):
            fake = ListingFake(names, b["size"])
            s3mod.s3._client = fake
            s3mod.s3._resource = fake
            args = dict(kw)
            if sfx == "explicit":
                args["suffix"] = ".mos.xml"
            elif sfx == "upper":
                args["suffix"] = ".MOS.XML"
            ev = {"id": "%s.%s.%s" % (cid, how, sfx), "k": "list", "keys": b["keys"], "prefixGiven": b["prefixGiven"], "prefixKey": pk,
                  "size": b["size"], "how": how + "/" + sfx, "sfx": sfx, "result": [], "raised": "~", "what": "", "outcomes": []}
            try:
                res = s3mod.get_mos_files("bkt", **args)
                ev["result"] = [back.get(r, -1) for r in res]
            except Exception as e:  # noqa: BLE001
                ev["raised"] = type(e).__name__
            out.append(ev)
    return out


EXTRA = []          # further events produced by load_case (collected by run)


def load_case(cid, what, text, tmproot, encoding="utf-8"):
    """the same content from every source; for encodings other than UTF-8 the content is bytes with the declaration /
    byte-order mark XML requires, and the str source does not apply"""
    from mosromgr.mostypes import MosFile
    from mosromgr.moscollection import MosReader
    outs = []
    if encoding == "utf-8":
        data = text.encode("utf-8")
    elif encoding == "iso-8859-1":
        body = text.split("?>", 1)[1] if text.startswith("<?xml") else text
        data = ('<?xml version="1.0" encoding="ISO-8859-1"?>' + body).encode("iso-8859-1", "replace")
    elif encoding == "latin1-utf8like":
        # ISO-8859-1 text whose every non-ASCII byte sequence is also well-formed UTF-8 ("\u00c3\u00a9" is C3 A9): only the
        # declaration says how to read it
        body = text.split("?>", 1)[1] if text.startswith("<?xml") else text
        body = "".join(ch if ord(ch) < 128 else "x" for ch in body).replace("</mosID>", "\u00c3\u00a9\u00c2\u00a3\u00c2\u00bd</mosID>", 1)
        data = ('<?xml version="1.0" encoding="ISO-8859-1"?>' + body).encode("iso-8859-1")
    else:
        body = text.split("?>", 1)[1] if text.startswith("<?xml") else text
        data = body.encode("utf-16")

    def rec(via, fn):
        try:
            with warnings.catch_warnings():
                warnings.simplefilter("ignore")
                o = fn()
            outs.append({"via": via, "cls": type(o).__name__, "ser": hashlib.sha1(str(o).encode("utf-8")).hexdigest()[:12]})
        except Exception as e:  # noqa: BLE001
            outs.append({"via": via, "cls": "raised:" + type(e).__name__, "ser": ""})
    d = tempfile.mkdtemp(prefix="src-", dir=tmproot)
    try:
        p = os.path.join(d, "doc.mos.xml")
        with open(p, "wb") as f:
            f.write(data)
        collection.install_fake_s3(collection.FakeS3({"bkt": {"k/doc.mos.xml": data}}))
        rec("file", lambda: MosFile.from_file(p))
        rec("file-path", lambda: MosFile.from_file(pathlib.Path(p)))
        rel = os.path.relpath(p)
        rec("file-relative", lambda: MosFile.from_file(rel))
        if encoding == "utf-8":
            rec("str", lambda: MosFile.from_string(text))
            rec("reader-str", lambda: MosReader.from_string(text).mos_object)
        rec("bytes", lambda: MosFile.from_string(data))
        rec("s3", lambda: MosFile.from_s3("bkt", "k/doc.mos.xml"))
        rec("reader-file", lambda: MosReader.from_file(p).mos_object)
        rec("reader-s3", lambda: MosReader.from_s3("bkt", "k/doc.mos.xml").mos_object)
    finally:
        shutil.rmtree(d, ignore_errors=True)
    ev2 = None
    if encoding == "utf-8" and "verif" in text:
        # the same path rewritten with other content of the same length, modification time kept (cp -p, rsync -t, a coarse
        # clock): reading the path again gives the new content
        text2 = text.replace("verif", "VERIF", 1)
        first = list(outs)
        outs.clear()
        d2 = tempfile.mkdtemp(prefix="src-", dir=tmproot)
        try:
            p2 = os.path.join(d2, "latest.mos.xml")
            with open(p2, "wb") as f:
                f.write(text.encode("utf-8"))
            st = os.stat(p2)
            rec("file-before", lambda: MosFile.from_file(p2))
            outs.clear()
            with open(p2, "wb") as f:
                f.write(text2.encode("utf-8"))
            os.utime(p2, ns=(st.st_atime_ns, st.st_mtime_ns))
            rec("str-rewritten", lambda: MosFile.from_string(text2))
            rec("file-rewritten", lambda: MosFile.from_file(p2))
            rec("reader-file-rewritten", lambda: MosReader.from_file(p2).mos_object)
        finally:
            shutil.rmtree(d2, ignore_errors=True)
        ev2 = {"id": cid + ".rw", "k": "load", "what": what + "/rewritten", "outcomes": list(outs), "keys": [], "prefixGiven": False,
               "prefixKey": 0, "size": 1, "sfx": "", "how": "", "result": [], "raised": "~"}
        outs[:] = first
    if ev2 is not None:
        EXTRA.append(ev2)
    return {"id": cid, "k": "load", "what": what + "/" + encoding, "outcomes": outs, "keys": [], "prefixGiven": False, "prefixKey": 0, "size": 1, "sfx": "",
            "how": "", "result": [], "raised": "~"}


def run(report, tier, seed):
    logging.disable(logging.CRITICAL)
    import mosromgr.mostypes  # noqa: F401
    logging.disable(logging.CRITICAL)
    res = tlc.run("MC_sources", "MC_sources_%s.cfg" % tier, "sources-" + report.prop, workers=16, timeout=3000)
    tlc.require_ok(res, "MC_sources")
    buckets = [json.loads(r) for r in sorted(set(res["lines"].get("BUCKET", [])))]
    events = []
    for i, b in enumerate(buckets):
        events += list_case("b%d" % i, b)
    # listings beyond the enumeration (two- to four-digit key counts, the service's real page size), judged by the same
    # trace specification
    for j, (nk, size) in enumerate([(12, 5), (25, 10), (101, 100), (1005, 1000)] if tier == "quick" else
                                   [(12, 5), (25, 10), (64, 7), (101, 100), (1005, 1000), (2500, 1000)]):
        keys = [{"under": i % 5 != 0, "suf": ("end", "end", "mid", "end", "none")[i % 5 if i % 7 else 3], "n": i}
                for i in range(1, nk + 1)]
        for given, pk in ((True, 0), (False, 0), (True, nk - 1)):
            events += list_case("big%d.%d%d" % (j, given, pk), {"keys": keys, "prefixGiven": given, "prefixKey": pk, "size": size})
    tmproot = tlc.workdir("src-tmp-" + report.prop)
    n = 0
    from .cli import class_message
    classes = sorted(["StorySend", "StoryAppend", "StoryDelete", "StoryInsert", "StoryMove", "StoryReplace", "ItemDelete",
                      "ItemInsert", "ItemMoveMultiple", "ItemReplace", "RunningOrderReplace", "MetaDataReplace", "ReadyToAir",
                      "RunningOrderEnd", "EAStoryReplace", "EAItemReplace", "EAStoryDelete", "EAItemDelete", "EAStoryInsert",
                      "EAItemInsert", "EAStorySwap", "EAItemSwap", "EAStoryMove", "EAItemMove"])
    reps = 2 if tier == "quick" else 8
    for c in classes + ["RunningOrder"]:
        for r in range(reps):
            g = Gamma("%s|load|%s|%d" % (seed, c, r))
            text = g.ro(collection.ro_shape(1000, "RO1")) if c == "RunningOrder" else g.msg(class_message(c))
            for enc in ("utf-8", "iso-8859-1", "utf-16", "latin1-utf8like"):
                events.append(load_case("d%d" % n, c, text, tmproot, encoding=enc))
                n += 1
    shutil.rmtree(tmproot, ignore_errors=True)
    events += EXTRA
    del EXTRA[:]
    bad, jst = pipeline.judge(events, "sources-" + report.prop, module="Trace_Sources")
    byid = {e["id"]: e for e in events}
    for b in bad:
        for clause in b["clauses"]:
            report.failure(clause, b["sig"], {"kind": "sources", "event": byid[b["id"]], "seed": seed})
    st = res["stats"]
    return {"states": st.get("distinct", 0) + jst["states"], "transitions": st.get("generated", 0),
            "traces_validated_against_impl": jst["judged"], "exhaustive": True, "buckets": len(buckets),
            "listings": sum(1 for e in events if e["k"] == "list"), "loads": sum(1 for e in events if e["k"] == "load"),
            "samples": random.Random(seed).sample(events, 2),
            "tlc": [{"cmd": st["cmd"], "wall_s": st["wall_s"], "theorems": ["Inv_Result", "Inv_Partial", "Live_Done"]}]}
