"""pytest plugin (binding C on the repository's own suite): `-p harness.pytest_plugin` with MOSROMGR_VERIF=1 installs the
out-of-tree tracer for the whole session and writes every recorded `ro += msg` to $MOSROMGR_VERIF_TRACE as JSON."""
import json
import os

_tracer = None


def pytest_configure(config):
    global _tracer
    if os.environ.get("MOSROMGR_VERIF") != "1":
        return
    from .tracer import Tracer
    _tracer = Tracer()
    _tracer.tee = True
    _tracer.install()


def pytest_runtest_setup(item):
    if _tracer is not None:
        _tracer.prefix = item.nodeid.split("::")[-1] + "#"


def pytest_unconfigure(config):
    if _tracer is None:
        return
    _tracer.uninstall()
    out = os.environ.get("MOSROMGR_VERIF_TRACE")
    if out:
        with open(out, "w") as f:
            json.dump(_tracer.events, f)
