"""Entry point: ./check <property> [--tier quick|thorough] | replay <file> | selftest"""
import argparse
import os
import sys
import traceback

from . import findings, tlc


def main(argv=None):
    ap = argparse.ArgumentParser(prog="check")
    ap.add_argument("what")
    ap.add_argument("arg", nargs="?")
    ap.add_argument("--tier", default=os.environ.get("VERIF_TIER", "quick"), choices=["quick", "thorough"])
    a = ap.parse_args(argv)
    seed = int(os.environ.get("VERIF_SEED", "20260926"))
    try:
        if a.what == "replay":
            from . import replay
            return replay.replay_file(a.arg)
        if a.what == "selftest":
            from . import selftest
            return selftest.run(a.tier, seed)
        from . import checks
        fn = checks.REGISTRY.get(a.what)
        if fn is None:
            print("unknown property %r" % a.what)
            return 2
        report = findings.Report(a.what, a.tier, seed)
        return fn(report, a.tier, seed)
    except tlc.TlcError as e:
        print("MACHINERY-ERROR %s" % e)
        return 2
    except Exception:  # noqa: BLE001
        traceback.print_exc()
        print("MACHINERY-ERROR unexpected exception in the harness")
        return 2
    finally:
        if os.environ.get("VERIF_KEEP_WORK") != "1":
            tlc.cleanup()           # TLC state directories, exported tables, judge shards: gigabytes at the thorough tier


if __name__ == "__main__":
    sys.exit(main())
