"""alpha: projection of real mosromgr objects / XML to the abstract state of the TLA+ spec.

Reads ``ro.xml`` (an ElementTree element) directly - never through the library's accessors.
No protocol knowledge apart from where a message keeps its references (``project_msg``),
which mirrors the MOS message schema, not the library.

Abstract node: {"tag", "id", "tok", "kids"}  (see spec/MosTypes.tla)
"""
import hashlib

NONE = "~"
ID_TAGS = ("storyID", "itemID", "roID", "messageID")


def _ws(s):
    return s is None or s.strip() == ""


def canon(el):
    """canonical, hashable form of an element's content: attributes, text, children (with tags,
    content and tails).  The element's own tag and tail are NOT included."""
    return ("A", tuple(sorted(el.attrib.items())), "T", el.text or "",
            "C", tuple((c.tag, canon(c), c.tail or "") for c in el))


def digest(obj):
    return "#" + hashlib.sha1(repr(obj).encode("utf-8", "surrogatepass")).hexdigest()[:16]


def _text_id(el):
    return el.text if (el is not None and el.text not in (None, "")) else NONE


def _child_id(el, tag):
    c = el.find(tag)
    return _text_id(c)


def container_tok(el):
    """tok of an element whose children are modelled: attributes + non-whitespace text only"""
    if not el.attrib and _ws(el.text):
        return NONE
    return digest(("A", tuple(sorted(el.attrib.items())), "T", (el.text or "").strip()))


def _tail_extra(el):
    return () if _ws(el.tail) else ("TAIL", el.tail)


def leaf(el):
    """a child that is not modelled structurally"""
    tag = el.tag
    if tag in ID_TAGS and not el.attrib and len(el) == 0 and _ws(el.tail):
        return {"tag": tag, "id": _text_id(el), "tok": "=", "kids": []}
    if tag == "item":
        nid = _child_id(el, "itemID")
    elif tag == "storyItem":
        nid = _child_id(el, "itemID")
    elif tag == "mosExternalMetadata":
        nid = _child_id(el, "mosSchema")
    elif tag in ID_TAGS:
        nid = _text_id(el)
    else:
        nid = NONE
    return {"tag": tag, "id": nid, "tok": digest((canon(el),) + _tail_extra(el)), "kids": []}


def story(el):
    tok = container_tok(el)
    if not _ws(el.tail):
        tok = digest((tok, "TAIL", el.tail))
    return {"tag": "story", "id": _child_id(el, "storyID"), "tok": tok,
            "kids": [leaf(c) for c in el]}


def child(el):
    return story(el) if el.tag == "story" else leaf(el)


def project_ro_xml(root):
    """abstract RO from the <mos> root element of a running order"""
    rootseq = []
    kids = None
    for c in root:
        if c.tag == "roCreate":
            rootseq.append({"tag": "roCreate", "id": NONE, "tok": container_tok(c), "kids": []})
            if kids is None:
                kids = [child(k) for k in c]
        elif c.tag == "mosromgrmeta":
            rootseq.append({"tag": "mosromgrmeta", "id": NONE, "tok": container_tok(c),
                            "kids": [leaf(k) for k in c]})
        else:
            rootseq.append(leaf(c))
    return {"root": rootseq, "kids": kids if kids is not None else []}


def project_ro(ro):
    return project_ro_xml(ro.xml)


# ------------------------------------------------------------------------------------------
# messages
# ------------------------------------------------------------------------------------------
def ref(el):
    if el is None:
        return {"shape": "absent", "id": NONE}
    if el.text in (None, ""):
        return {"shape": "blank", "id": NONE}
    return {"shape": "id", "id": el.text}


ABSENT = {"shape": "absent", "id": NONE}

BASE_TAG = {
    "StorySend": "roStorySend", "MetaDataReplace": "roMetadataReplace", "StoryAppend": "roStoryAppend",
    "StoryDelete": "roStoryDelete", "ItemDelete": "roItemDelete", "StoryInsert": "roStoryInsert",
    "ItemInsert": "roItemInsert", "StoryMove": "roStoryMove", "ItemMoveMultiple": "roItemMoveMultiple",
    "StoryReplace": "roStoryReplace", "ItemReplace": "roItemReplace", "ReadyToAir": "roReadyToAir",
    "RunningOrderReplace": "roReplace", "RunningOrderEnd": "roDelete", "RunningOrder": "roCreate",
}
EA_CLASSES = ("EAStoryReplace", "EAItemReplace", "EAStoryDelete", "EAItemDelete", "EAStoryInsert",
              "EAItemInsert", "EAStorySwap", "EAItemSwap", "EAStoryMove", "EAItemMove")


def empty_msg(cls):
    return {"cls": cls, "story": dict(ABSENT), "item": dict(ABSENT), "ids": [], "carried": [],
            "stok": NONE, "hdr": [], "bodyPos": 0, "body": []}


def project_msg_xml(cls, root):
    """abstract message from the <mos> root of a message document of class `cls`"""
    m = empty_msg(cls)
    if cls in EA_CLASSES:
        base = root.find("roElementAction")
        tgt = base.find("element_target")
        src = base.find("element_source")
        if tgt is not None:
            m["story"] = ref(tgt.find("storyID"))
            m["item"] = ref(tgt.find("itemID"))
        if src is not None:
            if cls in ("EAStoryReplace", "EAStoryInsert"):
                m["carried"] = [story(s) for s in src.findall("story")]
            elif cls in ("EAItemReplace", "EAItemInsert"):
                m["carried"] = [leaf(s) for s in src.findall("item")]
            elif cls in ("EAStoryDelete", "EAStoryMove", "EAStorySwap"):
                m["ids"] = [ref(s) for s in src.findall("storyID")]
            else:
                m["ids"] = [ref(s) for s in src.findall("itemID")]
        return m
    base = root.find(BASE_TAG[cls])
    if cls == "StorySend":
        m["story"] = ref(base.find("storyID"))
        m["stok"] = container_tok(base)
        pos = 0
        for i, c in enumerate(base):
            if c.tag == "storyBody" and pos == 0:
                pos = i + 1
                m["body"] = [leaf(k) for k in c]
            else:
                m["hdr"].append(leaf(c))
        m["bodyPos"] = pos
    elif cls == "StoryAppend":
        m["carried"] = [story(s) for s in base.findall("story")]
    elif cls == "StoryDelete":
        m["ids"] = [ref(s) for s in base.findall("storyID")]
    elif cls in ("StoryInsert", "StoryReplace"):
        m["story"] = ref(base.find("storyID"))
        m["carried"] = [story(s) for s in base.findall("story")]
    elif cls == "StoryMove":
        m["ids"] = [ref(s) for s in base.findall("storyID")]
    elif cls == "ItemDelete":
        m["story"] = ref(base.find("storyID"))
        m["ids"] = [ref(s) for s in base.findall("itemID")]
    elif cls in ("ItemInsert", "ItemReplace"):
        m["story"] = ref(base.find("storyID"))
        m["item"] = ref(base.find("itemID"))
        m["carried"] = [leaf(s) for s in base.findall("item")]
    elif cls == "ItemMoveMultiple":
        m["story"] = ref(base.find("storyID"))
        m["ids"] = [ref(s) for s in base.findall("itemID")]
    elif cls == "MetaDataReplace":
        m["carried"] = [leaf(c) for c in base]
    elif cls == "RunningOrderReplace":
        m["carried"] = [child(c) for c in base]
        m["stok"] = container_tok(base)
    elif cls == "RunningOrderEnd":
        m["carried"] = [leaf(base)]
    elif cls == "ReadyToAir":
        pass
    else:
        raise ValueError("no message projection for class %r" % cls)
    return m


# ------------------------------------------------------------------------------------------
# renaming digests to the token names the spec used (gamma binds them, see render.py)
# ------------------------------------------------------------------------------------------
def rename(obj, table):
    """replace every tok found in `table` (digest -> name) throughout an abstract value"""
    if isinstance(obj, dict):
        out = {}
        for k, v in obj.items():
            if k in ("tok", "stok") and isinstance(v, str):
                out[k] = table.get(v, v)
            else:
                out[k] = rename(v, table)
        return out
    if isinstance(obj, list):
        return [rename(x, table) for x in obj]
    return obj


def bind(abstract, projected, table):
    """walk an abstract value and its projection in parallel; record digest -> token name.
    Returns False when the two do not have the same shape (a machinery error)."""
    if isinstance(abstract, dict) and isinstance(projected, dict):
        if set(abstract) != set(projected):
            return False
        ok = True
        for k in abstract:
            if k in ("tok", "stok"):
                a, p = abstract[k], projected[k]
                if a != p:
                    if not (isinstance(p, str) and p.startswith("#")):
                        return False
                    if table.setdefault(p, a) != a:
                        return False
            else:
                ok = bind(abstract[k], projected[k], table) and ok
        return ok
    if isinstance(abstract, list) and isinstance(projected, list):
        if len(abstract) != len(projected):
            return False
        return all([bind(a, p, table) for a, p in zip(abstract, projected)])
    return abstract == projected


# ------------------------------------------------------------------------------------------
# the "view" of a running order for spec/MosObserve.tla (read side, C15-C17)
# ------------------------------------------------------------------------------------------
import datetime as _dt

BASE = _dt.datetime(2020, 1, 1)
NIL = []


def _opt_q(text, flags):
    """a decimal number of seconds -> Opt(quarter-seconds)"""
    try:
        v = float(text)
    except (TypeError, ValueError):
        flags["exact"] = False
        flags["numeric"] = False        # a timing field that is blank or not a number: outside what C15-C17 speak about
        return NIL
    q = v * 4
    if q != int(q) or abs(q) > 10 ** 8:
        flags["exact"] = False
        return [int(q)]
    return [int(q)]


ZONE = 2 ** 27      # a time is local quarter-seconds since BASE + ZONE * (0: no designator, 1: UTC "Z", 2: +01:00, 3: -05:00)


def time_q(d, flags):
    """datetime -> quarter-seconds since BASE (local reading) + ZONE * zone code: the UTC offset is part of the value"""
    try:
        zone = 0
        if d.tzinfo is not None:
            off = d.utcoffset().total_seconds()
            if off == 0:
                zone = 1
            elif off == 3600:
                zone = 2
            elif off == -18000:
                zone = 3
            else:
                flags["exact"] = False
            d = d.replace(tzinfo=None)
        s = (d - BASE).total_seconds()
        q = s * 4
        if q != int(q) or not (0 <= q < ZONE):
            flags["exact"] = False
            return [int(q) % ZONE]
        return [int(q) + zone * ZONE]
    except Exception:  # noqa: BLE001
        flags["exact"] = False
        return NIL


def _opt_t(text, flags):
    """(the element is present) its text -> Opt(instant); blank or not an instant: like a timing field that is not a number"""
    if text is None or not text.strip():
        flags["exact"] = False
        flags["numeric"] = False
        return NIL
    try:
        from dateutil.parser import parse
        return time_q(parse(text), flags)
    except Exception:  # noqa: BLE001
        flags["exact"] = False
        flags["numeric"] = False
        return NIL


def _payload(story_el):
    md = story_el.find("mosExternalMetadata")
    if md is None:
        return None
    return md.find("mosPayload")


def _txt(el, tag):
    if el is None:
        return None
    c = el.find(tag)
    return None if c is None else c.text


def _s(x):
    return NONE if x is None else x


def item_view(el):
    note = None
    try:
        n = el.find("mosExternalMetadata").find("mosPayload").find(".//studioCommand[@type='note']")
        note = n.find("text").text
    except AttributeError:
        note = None
    return {"id": _s(_txt(el, "itemID")), "slug": _s(_txt(el, "itemSlug")), "type": _s(_txt(el, "objType")),
            "object_id": _s(_txt(el, "objID")), "mos_id": _s(_txt(el, "mosID")), "note": _s(note)}


def view_ro_xml(root):
    flags = {"exact": True}
    rc = root.find("roCreate")
    ed = rc.find("roEdStart") if rc is not None else None
    edtext = ed.text if ed is not None else None
    stories = []
    for st in (rc.findall("story") if rc is not None else []):
        pay = _payload(st)

        def num(tag):
            t = _txt(pay, tag)
            return NIL if (pay is None or pay.find(tag) is None) else _opt_q(t, flags)

        def tim(tag):
            return NIL if (pay is None or pay.find(tag) is None) else _opt_t(_txt(pay, tag), flags)

        body = []
        for c in st:
            if c.tag == "p":
                body.append({"kind": "p", "text": [ord(ch) for ch in (c.text or "")], "mixed": len(c) > 0, "id": NONE})
            elif c.tag == "item":
                body.append({"kind": "item", "text": [], "mixed": False, "id": _s(_txt(c, "itemID"))})
            else:
                body.append({"kind": "other", "text": [], "mixed": False, "id": NONE})
        stories.append({"id": _s(_txt(st, "storyID")), "slug": _s(_txt(st, "storySlug")),
                        "sd": num("StoryDuration"), "tt": num("TextTime"), "mt": num("MediaTime"),
                        "st": tim("StoryStarted"), "en": tim("StoryEnded"),
                        "body": body, "items": [item_view(i) for i in st.findall("item")]})
    return {"edstart": NIL if edtext is None else _opt_t(edtext, flags), "exact": flags["exact"],
            "numeric": flags.get("numeric", True), "stories": stories}
