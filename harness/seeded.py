"""Evaluating seeded changes (realistic bugs written by independent sub-agents) against the checks.

  /venv/bin/python -m harness.seeded add  <dir with mN.diff, mN_demo.py, mN_meta.json> <property> <N>
  /venv/bin/python -m harness.seeded eval <seeded id> [--tier quick|thorough] [--checks C01,C05]

Each change is applied to a scratch git worktree of /repo (never to /repo itself), the pinned tests and the
demonstration are re-run there, the checks are pointed at the worktree with VERIF_REPO and write their evidence /
replays to a scratch directory (VERIF_SCRATCH), and the worktree is removed afterwards."""
import json
import os
import shutil
import subprocess
import sys
import tempfile
import time

VERIF = os.path.dirname(os.path.dirname(os.path.abspath(__file__)))
SEEDED = os.path.join(VERIF, "seeded")
PY = "/venv/bin/python"


def sh(cmd, **kw):
    return subprocess.run(cmd, shell=isinstance(cmd, str), capture_output=True, text=True, **kw)


def with_worktree(fn):
    wt = tempfile.mkdtemp(prefix="mosromgr-seed-", dir="/tmp")
    os.rmdir(wt)
    r = sh(["git", "-C", "/repo", "worktree", "add", "-q", "--detach", wt, "HEAD"])
    if r.returncode != 0:
        raise RuntimeError(r.stderr)
    try:
        return fn(wt)
    finally:
        sh(["git", "-C", "/repo", "worktree", "remove", "--force", wt])
        shutil.rmtree(wt, ignore_errors=True)


def confirm(sid):
    """the change applies, the pinned tests still pass, the demonstration fails with it and passes without"""
    d = os.path.join(SEEDED, sid)

    def run(wt):
        out = {}
        demo = os.path.join(d, "demo.py")
        r0 = sh([PY, demo], env=dict(os.environ, PYTHONPATH=wt), timeout=600)
        out["demo_clean_rc"] = r0.returncode
        a = sh(["git", "-C", wt, "apply", os.path.join(d, "patch.diff")])
        out["applies"] = a.returncode == 0
        if not out["applies"]:
            out["apply_err"] = a.stderr[-500:]
            return out
        t = sh([PY, "-m", "pytest", "-q", "-p", "no:cacheprovider", "-x"], cwd=wt, timeout=900)
        out["tests_pass"] = t.returncode == 0
        out["tests_tail"] = t.stdout.strip().splitlines()[-1:] if t.stdout else []
        r1 = sh([PY, demo], env=dict(os.environ, PYTHONPATH=wt), timeout=600)
        out["demo_changed_rc"] = r1.returncode
        out["demo_output"] = (r1.stdout + r1.stderr)[-800:]
        return out
    return with_worktree(run)


def evaluate(sid, checks, tier):
    d = os.path.join(SEEDED, sid)

    def run(wt):
        a = sh(["git", "-C", wt, "apply", os.path.join(d, "patch.diff")])
        if a.returncode != 0:
            raise RuntimeError("patch does not apply: " + a.stderr)
        scratch = tempfile.mkdtemp(prefix="mosromgr-seedout-", dir="/tmp")
        # run the checks from a snapshot of the framework, so that editing /verif meanwhile cannot disturb the evaluation
        snap = os.path.join(scratch, "verif")
        os.makedirs(snap)
        for sub in ("harness", "spec"):
            shutil.copytree(os.path.join(VERIF, sub), os.path.join(snap, sub), ignore=shutil.ignore_patterns("__pycache__"))
        for f in ("check", "known_findings.json", "properties.jsonl"):
            shutil.copy(os.path.join(VERIF, f), os.path.join(snap, f))
        res = {}
        try:
            for c in checks:
                t0 = time.time()
                r = sh([os.path.join(snap, "check"), c, "--tier", tier],
                       env=dict(os.environ, VERIF_REPO=wt, VERIF_SCRATCH=scratch), timeout=7200)
                lines = [ln for ln in r.stdout.splitlines() if ln.startswith(("VIOLATION", "MACHINERY", "KNOWN"))]
                res[c] = {"rc": r.returncode, "wall_s": round(time.time() - t0, 1), "lines": [ln[:300] for ln in lines[:6]],
                          "n_violation_lines": sum(1 for ln in lines if ln.startswith("VIOLATION"))}
        finally:
            shutil.rmtree(scratch, ignore_errors=True)
        return res
    return with_worktree(run)


PINNED = "33ae397"


def pinned(checks, tier):
    """run the checks against the pinned commit (before any fix:) in a scratch worktree: the genuine defects of the
    pinned tree must still be reported"""
    wt = tempfile.mkdtemp(prefix="mosromgr-pinned-", dir="/tmp")
    os.rmdir(wt)
    r = sh(["git", "-C", "/repo", "worktree", "add", "-q", "--detach", wt, PINNED])
    if r.returncode != 0:
        raise RuntimeError(r.stderr)
    scratch = tempfile.mkdtemp(prefix="mosromgr-seedout-", dir="/tmp")
    out = {}
    try:
        for c in checks:
            t0 = time.time()
            r = sh([os.path.join(VERIF, "check"), c, "--tier", tier],
                   env=dict(os.environ, VERIF_REPO=wt, VERIF_SCRATCH=scratch), timeout=7200)
            lines = [ln for ln in r.stdout.splitlines() if ln.startswith(("VIOLATION", "MACHINERY", "..."))]
            sigs = sorted({ln.split("clause=")[1].split(" cases=")[0] for ln in lines if "clause=" in ln})
            more = [ln for ln in lines if ln.startswith("...")]
            out[c] = {"rc": r.returncode, "wall_s": round(time.time() - t0, 1), "violation_groups_shown": sigs[:12],
                      "more": more[:1]}
            print(c, "rc=%s" % r.returncode, len(sigs), "groups shown", more[:1])
    finally:
        shutil.rmtree(scratch, ignore_errors=True)
        sh(["git", "-C", "/repo", "worktree", "remove", "--force", wt])
        shutil.rmtree(wt, ignore_errors=True)
    return out


def main(argv):
    if argv[0] == "pinned":
        tier = "quick"
        checks = ["C%02d" % i for i in range(1, 21)]
        for i, a in enumerate(argv):
            if a == "--checks":
                checks = argv[i + 1].split(",")
        res = pinned(checks, tier)
        path = os.path.join(SEEDED, "pinned-tree.json")
        if os.path.exists(path) and len(checks) < 20:
            old = json.load(open(path)).get("results", {})
            old.update(res)
            res = old
        json.dump({"commit": PINNED, "tier": tier, "results": res,
                   "note": "checks run against the pinned commit, before the fix: commits; rc=1 means the check reports "
                           "the defects of the pinned tree (see known_findings.json 'fixed')"},
                  open(os.path.join(SEEDED, "pinned-tree.json"), "w"), indent=1)
        return 0
    if argv[0] == "add":
        src, prop, n = argv[1], argv[2], argv[3]
        dst = argv[4] if len(argv) > 4 else n
        sid = "%s-m%s" % (prop, dst)
        d = os.path.join(SEEDED, sid)
        os.makedirs(d, exist_ok=True)
        shutil.copy(os.path.join(src, "m%s.diff" % n), os.path.join(d, "patch.diff"))
        shutil.copy(os.path.join(src, "m%s_demo.py" % n), os.path.join(d, "demo.py"))
        meta = json.load(open(os.path.join(src, "m%s_meta.json" % n)))
        meta = {"id": sid, "property": prop, "summary": meta.get("summary"), "needs": meta.get("needs"),
                "files": meta.get("files"), "origin": "independent sub-agent given only the property text and a scratch worktree",
                "round": (int(dst) + 1) // 2}
        meta["confirmed"] = confirm(sid)
        json.dump(meta, open(os.path.join(d, "meta.json"), "w"), indent=1)
        c = meta["confirmed"]
        print(sid, "applies", c.get("applies"), "tests", c.get("tests_pass"), "demo clean/changed", c.get("demo_clean_rc"), c.get("demo_changed_rc"))
        return 0
    if argv[0] == "eval":
        sid = argv[1]
        tier = "quick"
        checks = None
        for i, a in enumerate(argv):
            if a == "--tier":
                tier = argv[i + 1]
            if a == "--checks":
                checks = argv[i + 1].split(",")
        mp = os.path.join(SEEDED, sid, "meta.json")
        meta = json.load(open(mp))
        checks = checks or [meta["property"]]
        res = evaluate(sid, checks, tier)
        meta.setdefault("results", {}).setdefault(tier, {}).update(res)
        meta["detected_by"] = sorted({"%s/%s" % (c, t) for t, rr in meta["results"].items() for c, r in rr.items() if r["rc"] == 1})
        json.dump(meta, open(mp, "w"), indent=1)
        for c, r in res.items():
            print(sid, tier, c, "rc=%s" % r["rc"], "%ss" % r["wall_s"], (r["lines"][:1] or [""])[0][:160])
        return 0
    return 2


if __name__ == "__main__":
    sys.exit(main(sys.argv[1:]))
