"""Known findings (committed, never written at run time), violation reporting, evidence files."""
import fnmatch
import json
import os
import time

VERIF = os.path.dirname(os.path.dirname(os.path.abspath(__file__)))
KNOWN = os.path.join(VERIF, "known_findings.json")
OUT_ROOT = os.environ.get("VERIF_SCRATCH", VERIF)
REPLAYS = os.path.join(OUT_ROOT, "replays")
EVIDENCE = os.path.join(OUT_ROOT, "evidence")


def load_known():
    if not os.path.exists(KNOWN):
        return {"known": [], "fixed": []}
    with open(KNOWN) as f:
        return json.load(f)


class Report:
    """collects failures for one property; decides VIOLATION vs KNOWN-FINDING; prints; exit code"""

    def __init__(self, prop, tier, seed):
        self.prop = prop
        self.tier = tier
        self.seed = seed
        self.known = [k for k in load_known().get("known", []) if k["property"] == prop]
        self.known_hits = {}      # index -> count
        self.violations = []      # dicts
        self.machinery = []
        self.t0 = time.time()

    def failure(self, clause, sig, detail):
        """one failing (clause, signature); detail: dict that can be replayed"""
        for i, k in enumerate(self.known):
            if k.get("clause", "*") in ("*", clause) and fnmatch.fnmatchcase(sig, k["sig"]):
                self.known_hits[i] = self.known_hits.get(i, 0) + 1
                return "known"
        self.violations.append({"clause": clause, "sig": sig, "detail": detail})
        return "violation"

    def machinery_error(self, msg):
        self.machinery.append(msg)

    def finish(self, coverage, assumptions, level="model_checking", max_lines=12):
        os.makedirs(REPLAYS, exist_ok=True)
        os.makedirs(EVIDENCE, exist_ok=True)
        for old in os.listdir(REPLAYS):
            if old.startswith(self.prop + "-"):
                os.remove(os.path.join(REPLAYS, old))
        for i, n in sorted(self.known_hits.items()):
            k = self.known[i]
            print("KNOWN-FINDING: property=%s %s [%s %s] (%d cases)" %
                  (self.prop, k["what"], k.get("clause", "*"), k["sig"], n))
        # group violations by (clause, sig): one replay file per group
        groups = {}
        for v in self.violations:
            groups.setdefault((v["clause"], v["sig"]), []).append(v)
        shown = 0
        for n, ((clause, sig), vs) in enumerate(sorted(groups.items()), 1):
            path = os.path.join(REPLAYS, "%s-%d.json" % (self.prop, n))
            with open(path, "w") as f:
                json.dump({"property": self.prop, "clause": clause, "sig": sig, "seed": self.seed,
                           "count": len(vs), "case": vs[0]["detail"]}, f, indent=1, ensure_ascii=False)
            if shown < max_lines:
                print("VIOLATION property=%s replay=%s clause=%s sig=%s cases=%d" %
                      (self.prop, path, clause, sig, len(vs)))
                shown += 1
        if len(groups) > shown:
            print("... %d more violation groups for %s (replays written)" % (len(groups) - shown, self.prop))
        for m in self.machinery[:3]:
            print("MACHINERY-ERROR property=%s %s" % (self.prop, m[:600]))
        if len(self.machinery) > 3:
            print("MACHINERY-ERROR property=%s ... %d more" % (self.prop, len(self.machinery) - 3))
        ev = {"property_id": self.prop, "tier": self.tier, "seed": self.seed, "level": level,
              "coverage": coverage, "assumptions": assumptions,
              "wall_s": round(time.time() - self.t0, 2), "violations": len(self.violations)}
        ev["coverage"]["known_finding_cases"] = sum(self.known_hits.values())
        ev["coverage"]["violation_groups"] = len(groups)
        with open(os.path.join(EVIDENCE, "%s.json" % self.prop), "w") as f:
            json.dump(ev, f, indent=1, ensure_ascii=False)
        if self.machinery:
            return 2
        return 1 if self.violations else 0
