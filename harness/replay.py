"""./check replay <file>: re-run exactly the case stored in a replay file against the current tree,
judge it again with TLC and print what the implementation did."""
import json
import logging
import os
import sys

from . import pipeline, tlc


def _print_bad(bad):
    if not bad:
        print("REPLAY: the case now satisfies every clause")
        return 0
    for b in bad:
        print("REPLAY: failing clauses %s at %s sig=%s" % (b["clauses"], b["id"], b["sig"]))
    return 1


def replay_file(path):
    logging.disable(logging.CRITICAL)
    d = json.load(open(path))
    c = d["case"]
    kind = c.get("kind")
    print("REPLAY: property=%s clause=%s sig=%s kind=%s" % (d["property"], d["clause"], d["sig"], kind))
    if kind == "merge_case":
        from . import execute
        ev = execute.run_case(c["id"], c["pre"], c["msg"], c["seed"], keep_xml=True)
        x = ev.pop("xml", {})
        print("--- running order XML\n%s\n--- message XML\n%s\n--- after\n%s\n--- error: %s" %
              (x.get("ro"), x.get("msg"), x.get("after"), x.get("error")))
        print("status=%s warns=%s ser_eq=%s" % (ev["status"], ev["warns"], ev["ser_eq"]))
        print("stories before: %s" % [k["id"] for k in ev["pre"]["kids"] if k["tag"] == "story"])
        print("stories after : %s" % [k["id"] for k in ev["post"]["kids"] if k["tag"] == "story"])
        bad, _ = pipeline.judge([ev], "replay")
        return _print_bad(bad)
    if kind in ("behaviour", "behaviour_observe"):
        from . import behave
        evs = behave.run_behaviour(c["beh_id"], c["behaviour"], c["seed"], observe=pipeline._observe_fn,
                                   expose=pipeline._expose_fn)
        for e in evs:
            print("%-14s %-8s obj=%s %-22s status=%s warns=%s intact=%s" %
                  (e["id"], e["k"], e["obj"], e["msg"]["cls"], e["status"], e["warns"], e["intact"]))
        bad, _ = pipeline.judge_sequences([evs], "replay")
        oevs = [{"id": e["id"], "view": e["obs"]["view"], "obs": e["obs"]["obs"]} for e in evs if e["k"] == "observe"]
        obad, _ = pipeline.judge(oevs, "replay-obs", module="Trace_Observe")
        return _print_bad(bad + obad)
    if kind == "classify":
        from . import classify
        events, texts = classify.classify_all([(c["id"], c["doc"])], c["seed"])
        print(texts[c["id"]])
        print(events[0]["outcomes"])
        bad, _ = pipeline.judge(events, "replay", module="Trace_Classify")
        return _print_bad(bad)
    if kind == "observe":
        from . import observe
        out = observe._chunk(([(c["id"], dict(c["view"], stories=[dict(s, md=s.get("md", "payload")) for s in c["view"]["stories"]]))],
                              c["seed"]))
        print(c.get("xml"))
        print(json.dumps(out[0].get("obs"), ensure_ascii=False)[:2000])
        bad, _ = pipeline.judge([e for e in out if "machinery" not in e], "replay", module="Trace_Observe")
        return _print_bad(bad)
    if kind == "expose":
        from . import expose
        ev = expose.observe_msg(c["id"], c["msg"], c["seed"])
        print(ev.get("text"))
        print(json.dumps(ev.get("obs"), ensure_ascii=False)[:2000])
        print(ev.get("inspect"))
        bad, _ = pipeline.judge([{k: v for k, v in ev.items() if k in ("id", "msg", "obs")}], "replay", module="Trace_Expose")
        return _print_bad(bad)
    if kind == "collection":
        from . import collection
        from .tracer import Tracer
        e0 = c["event"]
        tr = Tracer()
        tr.install()
        tmproot = tlc.workdir("replay-tmp")
        if e0.get("flags") == "python-O":
            print("(python -O case: re-run in-process without -O)")
        ev, steps = collection.run_collection(e0["id"], e0["docs"], e0["allow"], e0["strict"], e0["via"], c["seed"], tr, tmproot)
        tr.uninstall()
        print(json.dumps(ev, indent=1)[:3000])
        bad, _ = pipeline.judge([ev], "replay", module="Trace_Coll")
        return _print_bad(bad)
    if kind == "cli":
        from . import cli
        e0 = c["event"]
        tmproot = tlc.workdir("replay-tmp")
        if e0["cmd"] == "merge":
            ev = cli.run_merge_case(e0["id"], e0["c"], e0.get("spec_rc"), c["seed"], tmproot)
        else:
            ev = cli.run_loop_case(e0["id"], {"cmd": e0["cmd"], "files": e0["files"], "mode": e0.get("mode", "files")}, c["seed"], tmproot)
        print(json.dumps(ev, indent=1)[:3000])
        ev = {k: v for k, v in ev.items() if k not in ("stderr_tail", "stdout_head", "spec_rc")}
        bad, _ = pipeline.judge([ev], "replay", module="Trace_Cli")
        return _print_bad(bad)
    if kind == "sources":
        from . import sources
        e0 = c["event"]
        if e0["k"] == "list":
            evs = sources.list_case("r", {"keys": e0["keys"], "prefixGiven": e0["prefixGiven"], "prefixKey": e0.get("prefixKey", 0), "size": e0["size"]})
            evs = [e for e in evs if e.get("sfx") == e0.get("sfx", e.get("sfx"))]
        else:
            print("load case: see stored outcomes")
            evs = [e0]
        print(json.dumps(evs, indent=1)[:3000])
        bad, _ = pipeline.judge(evs, "replay", module="Trace_Sources")
        return _print_bad(bad)
    print(json.dumps(c, indent=1)[:4000])
    print("REPLAY: no re-execution for this kind; stored case shown")
    return 0
