-------------------------------- MODULE MC_cli --------------------------------
(***************************************************************************)
(* The detect / inspect loop as a state machine over every file list up to *)
(* MaxFiles, and the merge command over every collection of MC_coll's pool *)
(* x option sets.  Liveness: every listed file is processed.               *)
(***************************************************************************)
EXTENDS MosCli, Json

CONSTANTS MaxFiles, MaxDocs, Export

File(kind, cls, completed) == [kind |-> kind, cls |-> cls, completed |-> completed]
BaseFiles ==
  { File("valid", "RunningOrder", FALSE), File("valid", "RunningOrder", TRUE), File("valid", "StoryAppend", FALSE),
    File("valid", "EAStoryMove", FALSE), File("nonxml", "", FALSE), File("unknown", "", FALSE),
    File("missing", "", FALSE), File("dir", "", FALSE) }
ClassFiles == { File("valid", c, FALSE) : c \in ClassNames }

FileLists == UNION { [1..n -> BaseFiles] : n \in 1..MaxFiles } \cup { <<f>> : f \in ClassFiles }
                \cup { <<f, File("valid", "RunningOrder", TRUE)>> : f \in ClassFiles }

Doc(mid, roid, kind) == [mid |-> mid, roid |-> roid, kind |-> kind]
Pool == { Doc(9, "RO1", "roCreate"), Doc(1000, "RO1", "roCreate"), Doc(10, "RO1", "ok"), Doc(100, "RO1", "warn"),
          Doc(11, "RO1", "fail"), Doc(101, "RO1", "roDelete"), Doc(99, "RO2", "ok") }
DocLists == UNION { { s \in [1..n -> Pool] : \A a, b \in 1..n : a < b => s[a].mid < s[b].mid } : n \in 1..MaxDocs }

VARIABLES cmd, files, k, marks, pc
clivars == <<cmd, files, k, marks, pc>>

Init ==
  /\ cmd \in {"detect", "inspect"}
  /\ files \in FileLists
  /\ k = 1 /\ marks = <<>> /\ pc = "loop"
  /\ (Export => PrintT(<<"CLI", ToJson([cmd |-> cmd, files |-> files])>>))

ProcessFile ==
  /\ pc = "loop" /\ k <= Len(files)
  /\ marks' = Append(marks, IF IsValid(files[k]) THEN Marker(files[k]) ELSE "invalid")
  /\ k' = k + 1
  /\ UNCHANGED <<cmd, files, pc>>
Done ==
  /\ pc = "loop" /\ k = Len(files) + 1
  /\ pc' = "exit"
  /\ UNCHANGED <<cmd, files, k, marks>>
Next == ProcessFile \/ Done
Spec == Init /\ [][Next]_clivars /\ WF_clivars(Next)

Live_AllProcessed == <>(pc = "exit" /\ Len(marks) = Len(files))
Inv_InOrder == \A i \in DOMAIN marks : marks[i] = (IF IsValid(files[i]) THEN Marker(files[i]) ELSE "invalid")

(* the merge command: a second, stateless enumeration exported from the    *)
(* initial states of a dummy variable                                      *)
MergeCases == { [docs |-> d, allow |-> a, nonstrict |-> n, outfile |-> o]
                  : d \in DocLists, a \in BOOLEAN, n \in BOOLEAN, o \in BOOLEAN }
ASSUME Export => \A c \in MergeCases :
          PrintT(<<"MERGE", ToJson([c |-> c, rc |-> MergeRc(c.docs, c.allow, c.nonstrict)])>>)
ASSUME \A c \in MergeCases : MergeRc(c.docs, c.allow, c.nonstrict) \in {0, 2}
=============================================================================
