-------------------------------- MODULE MC_cli --------------------------------
(***************************************************************************)
(* The detect / inspect loop as a state machine over every file list up to *)
(* MaxFiles, and the merge command over every collection of MC_coll's pool *)
(* x option sets.  Liveness: every listed file is processed.               *)
(***************************************************************************)
EXTENDS MosCli, Json

CONSTANTS MaxFiles, MaxDocs, Export

File(kind, cls, completed) == [kind |-> kind, cls |-> cls, completed |-> completed]
BaseFiles ==
  { File("valid", "RunningOrder", FALSE), File("valid", "RunningOrder", TRUE), File("valid", "StoryAppend", FALSE),
    File("valid", "EAStoryMove", FALSE), File("nonxml", "", FALSE), File("unknown", "", FALSE),
    File("missing", "", FALSE), File("dir", "", FALSE) }
ClassFiles == { File("valid", c, FALSE) : c \in ClassNames }

FileLists == UNION { [1..n -> BaseFiles] : n \in 1..MaxFiles } \cup { <<f>> : f \in ClassFiles }
                \cup { <<f, File("valid", "RunningOrder", TRUE)>> : f \in ClassFiles }

Doc(mid, roid, kind) == [mid |-> mid, roid |-> roid, kind |-> kind]
Pool == { Doc(9, "RO1", "roCreate"), Doc(1000, "RO1", "roCreate"), Doc(10, "RO1", "ok"), Doc(100, "RO1", "warn"),
          Doc(11, "RO1", "fail"), Doc(101, "RO1", "roDelete"), Doc(99, "RO1 ", "ok"),
          Doc(102, "RO1", "ok"),             \* a message numbered after the roDelete
          Doc(10, "RO1", "ok2") }            \* shares its message id with another message: the order of supply decides
DocLists == UNION { { s \in [1..n -> Pool] : \A a, b \in 1..n : a < b => (s[a].mid <= s[b].mid /\ s[a] # s[b]) } : n \in 1..MaxDocs }

VARIABLES cmd, mode, files, k, marks, pc
clivars == <<cmd, mode, files, k, marks, pc>>

S3Able(fs) == \A i \in DOMAIN fs : fs[i].kind \in {"valid", "nonxml", "unknown"}

Init ==
  /\ cmd \in {"detect", "inspect"}
  /\ mode \in {"files", "bucket_prefix", "bucket_prefix_suffix", "bucket_key", "bucket_only", "none"}
  /\ files \in FileLists
  /\ mode # "files" => S3Able(files) /\ Len(files) <= 2
  /\ mode = "bucket_key" => Len(files) = 1
  /\ k = 1 /\ marks = <<>>
  /\ pc = IF UsageError(cmd, mode) THEN "usage" ELSE "loop"
  /\ (Export => PrintT(<<"CLI", ToJson([cmd |-> cmd, mode |-> mode, files |-> files])>>))

ProcessFile ==
  /\ pc = "loop" /\ k <= Len(files)
  /\ marks' = Append(marks, IF IsValid(files[k]) THEN Marker(files[k]) ELSE "invalid")
  /\ k' = k + 1
  /\ UNCHANGED <<cmd, mode, files, pc>>
Done ==
  /\ pc = "loop" /\ k = Len(files) + 1
  /\ pc' = "exit"
  /\ UNCHANGED <<cmd, mode, files, k, marks>>
Usage ==                      \* nothing names a document: message on stderr, status 2, nothing processed
  /\ pc = "usage"
  /\ pc' = "exit2"
  /\ UNCHANGED <<cmd, mode, files, k, marks>>
Next == ProcessFile \/ Done \/ Usage
Spec == Init /\ [][Next]_clivars /\ WF_clivars(Next)

Live_AllProcessed == <>((pc = "exit" /\ Len(marks) = Len(files)) \/ (pc = "exit2" /\ marks = <<>>))
Inv_InOrder == \A i \in DOMAIN marks : marks[i] = (IF IsValid(files[i]) THEN Marker(files[i]) ELSE "invalid")

(* the merge command: a second, stateless enumeration exported from the    *)
(* initial states of a dummy variable                                      *)
MergeCases == { [docs |-> d, allow |-> a, nonstrict |-> n, outfile |-> o, mode |-> "files"]
                  : d \in DocLists, a \in BOOLEAN, n \in BOOLEAN, o \in BOOLEAN }
              \cup { [docs |-> d, allow |-> a, nonstrict |-> n, outfile |-> FALSE, mode |-> md]
                  : d \in { x \in DocLists : Len(x) <= 2 }, a \in BOOLEAN, n \in BOOLEAN,
                    md \in {"bucket_prefix", "bucket_prefix_suffix", "bucket_only", "none"} }
ASSUME Export => \A c \in MergeCases :
          PrintT(<<"MERGE", ToJson([c |-> c, rc |-> MergeRcMode(c.docs, c.allow, c.nonstrict, c.mode)])>>)
ASSUME \A c \in MergeCases : MergeRcMode(c.docs, c.allow, c.nonstrict, c.mode) \in {0, 2}
ASSUME \A c \in MergeCases : c.mode = "files" => MergeRcMode(c.docs, c.allow, c.nonstrict, c.mode) = MergeRc(c.docs, c.allow, c.nonstrict)
=============================================================================
