------------------------------- MODULE MC_coll -------------------------------
(***************************************************************************)
(* The collection life cycle as a state machine, explored exhaustively     *)
(* over every ordered list of documents drawn from a pool (all subsets up  *)
(* to MaxDocs, all permutations) x strict x allow_incomplete.              *)
(* Safety: the loop ends in the state Expected() predicts; acceptance      *)
(* staged = declarative; construction is permutation-independent.          *)
(* Liveness (fairness, no state constraint): every run terminates, and a   *)
(* non-strict merge of an accepted collection always reaches "done".       *)
(***************************************************************************)
EXTENDS MosCollection, Json

CONSTANTS MaxDocs, LongMax, Export, BulkSizes

Doc(mid, roid, kind) == [mid |-> mid, roid |-> roid, kind |-> kind]
Pool == { Doc(9, "RO1", "roCreate"), Doc(1000, "RO1", "roCreate"),
          Doc(10, "RO1", "ok"), Doc(100, "RO1", "warn"), Doc(11, "RO1", "fail"),
          Doc(101, "RO1", "roDelete"), Doc(8, "RO1", "roDelete"), Doc(99, "RO1 ", "ok"),             \* another running order: the id differs by a trailing blank only
          Doc(12, "RO1", "roReplace"),       \* a roReplace is a message, not a second roCreate
          Doc(13, "RO1", "warn2"),           \* merges with two warnings of the same kind
          Doc(7, "RO1", "roCreateDone") }    \* a roCreate that is already completed: still needs its roDelete to be "complete"

(* every injective sequence over the pool, length 0..MaxDocs               *)
ShortLists == UNION { { s \in [1..n -> Pool] : \A a, b \in 1..n : a # b => s[a] # s[b] } : n \in 0..MaxDocs }
(* longer collections, supplied in ascending and in descending id order:   *)
(* every subset of LongLen..LongMax documents that holds the roCreate 9    *)
Ascending(S) == SortByMid(SetToSeq(S))
LongSets == { S \in SUBSET Pool : Cardinality(S) \in (MaxDocs+1)..LongMax /\ Doc(9, "RO1", "roCreate") \in S
                                  /\ Doc(1000, "RO1", "roCreate") \notin S /\ Doc(99, "RO1 ", "ok") \notin S
                                  /\ Doc(7, "RO1", "roCreateDone") \notin S }
LongLists == { Ascending(S) : S \in LongSets } \cup { Reverse(Ascending(S)) : S \in LongSets }
(* bulk collections: two-digit and larger message counts (a roCreate, n-2   *)
(* messages of which every 7th fails and every 11th warns, a roDelete),    *)
(* supplied ascending, descending, rotated, with one straggler moved to    *)
(* the end, and interleaved                                                *)
BulkDoc(k) == Doc(19 + k, "RO1", IF k % 7 = 0 THEN "fail" ELSE IF k % 11 = 0 THEN "warn" ELSE "ok")
BulkAsc(n) == <<Doc(9, "RO1", "roCreate")>> \o [k \in 1..(n-2) |-> BulkDoc(k)] \o <<Doc(5000, "RO1", "roDelete")>>
Rotate(s, r) == SubSeq(s, r+1, Len(s)) \o SubSeq(s, 1, r)
Straggler(s) == <<s[1]>> \o SubSeq(s, 3, Len(s)) \o <<s[2]>>
EvenOdd(s) == LET n == Len(s)  h == (n + 1) \div 2
                 IN [k \in 1..n |-> IF k <= h THEN s[2*k - 1] ELSE s[2*(k - h)]]
BulkLists == UNION { { BulkAsc(n), Reverse(BulkAsc(n)), Rotate(BulkAsc(n), n \div 3), Straggler(BulkAsc(n)),
                       EvenOdd(BulkAsc(n)) } : n \in BulkSizes }
Lists == ShortLists \cup LongLists \cup BulkLists

(* ---------------------------------------------------------------------- *)
(* The merge loop as a state machine                                      *)
(* ---------------------------------------------------------------------- *)
VARIABLES supplied, allow, strict, readers, i, completed, nwarn, applied, pc
cvars == <<supplied, allow, strict, readers, i, completed, nwarn, applied, pc>>

Construct ==
  /\ pc = "new"
  /\ IF Accepts(supplied, allow)
     THEN /\ readers' = Readers(supplied)
          /\ completed' = StartsCompleted(supplied)
          /\ pc' = "accepted"
     ELSE /\ readers' = <<>>
          /\ completed' = FALSE
          /\ pc' = "invalid"
  /\ i' = 1
  /\ UNCHANGED <<supplied, allow, strict, nwarn, applied>>

StartMerge ==
  /\ pc = "accepted"
  /\ pc' = "merging"
  /\ UNCHANGED <<supplied, allow, strict, readers, i, completed, nwarn, applied>>

MergeStepOk ==
  /\ pc = "merging" /\ i <= Len(readers)
  /\ ~Fails(readers[i], completed)
  /\ applied' = Append(applied, readers[i].mid)
  /\ completed' = (completed \/ IsDelete(readers[i]))
  /\ i' = i + 1
  /\ UNCHANGED <<supplied, allow, strict, readers, nwarn, pc>>

MergeStepFails ==
  /\ pc = "merging" /\ i <= Len(readers)
  /\ Fails(readers[i], completed)
  /\ IF strict
     THEN /\ pc' = "raised"
          /\ UNCHANGED <<i, nwarn>>
     ELSE /\ nwarn' = nwarn + 1          \* exactly one MosMergeNonStrictWarning, message skipped
          /\ i' = i + 1
          /\ pc' = pc
  /\ UNCHANGED <<supplied, allow, strict, readers, completed, applied>>

Finish ==
  /\ pc = "merging" /\ i = Len(readers) + 1
  /\ pc' = "done"
  /\ UNCHANGED <<supplied, allow, strict, readers, i, completed, nwarn, applied>>

CNext == Construct \/ StartMerge \/ MergeStepOk \/ MergeStepFails \/ Finish


Init ==
  /\ supplied \in Lists
  /\ allow \in BOOLEAN
  /\ strict \in BOOLEAN
  /\ readers = <<>> /\ i = 1 /\ completed = FALSE /\ nwarn = 0 /\ applied = <<>> /\ pc = "new"
  /\ (Export => PrintT(<<"COLL", ToJson([docs |-> supplied, allow |-> allow, strict |-> strict])>>))

Spec     == Init /\ [][CNext]_cvars
FairSpec == Spec /\ WF_cvars(CNext)

Terminal == pc \in {"invalid", "raised", "done"}

(* C11: the staged validation is the declarative predicate                 *)
Inv_AcceptStaged == Accepts(supplied, allow) <=> AcceptsStaged(supplied, allow)
(* C11: after acceptance the running order is the roCreate and the readers *)
(* exclude it                                                              *)
Inv_ReadersExcludeCreate ==
  pc \notin {"new", "invalid"} => \A k \in DOMAIN readers : ~IsCreate(readers[k])
(* C10: construction does not depend on the order of supply                *)
Inv_PermIndependent ==
  pc = "accepted" =>
     \A other \in Lists :
        (SeqRange(other) = SeqRange(supplied) /\ Len(other) = Len(supplied)) => Readers(other) = readers
(* C10: numeric order                                                      *)
Inv_Ascending ==
  \A a, b \in DOMAIN readers : a < b => readers[a].mid < readers[b].mid
(* C09: a finished run is what Expected() says                             *)
Inv_Expected ==
  Terminal /\ pc # "invalid" =>
     LET e == Expected(supplied, strict)
     IN /\ applied = e.applied
        /\ (pc = "raised") = (e.raisedAt # 0)
        /\ (pc = "done" /\ ~strict) => nwarn = Len(e.failed)
        /\ completed = e.completed
(* C09/C12 liveness                                                        *)
Live_Terminates == <>Terminal
Live_NonStrictDone == (~strict /\ Accepts(supplied, allow)) => <>(pc = "done")

=============================================================================
