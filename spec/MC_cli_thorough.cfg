SPECIFICATION Spec
CONSTANTS
  MaxFiles = 3
  MaxDocs = 4
  Export = TRUE
INVARIANT Inv_InOrder
PROPERTY Live_AllProcessed
CHECK_DEADLOCK FALSE
