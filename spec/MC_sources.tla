------------------------------ MODULE MC_sources ------------------------------
(* The listing as a page-by-page state machine over every bucket of up to  *)
(* MaxKeys keys (each under/not under the prefix, with/without the suffix) *)
(* x page size x prefix given or empty.  Theorem: when the last page has   *)
(* been consumed the accumulated result is Listing().                      *)
EXTENDS MosSources, TLC, Json

CONSTANTS MaxKeys, MaxPage, Export
VARIABLES keys, prefixGiven, prefixKey, size, pages, cursor, acc, pc
svars == <<keys, prefixGiven, prefixKey, size, pages, cursor, acc, pc>>

KeySeqs == UNION { { [i \in 1..n |-> [under |-> f[i][1], suf |-> f[i][2], n |-> i]]
                       : f \in [1..n -> BOOLEAN \X {"end", "mid", "none", "upper"}] }
                    : n \in 0..MaxKeys }

Init ==
  /\ keys \in KeySeqs /\ prefixGiven \in BOOLEAN /\ size \in 1..MaxPage
  /\ prefixKey \in 0..Len(keys) /\ (prefixKey # 0 => prefixGiven)
  /\ pages = ListingPages(keys, prefixGiven, prefixKey, size)
  /\ cursor = 1 /\ acc = <<>> /\ pc = "listing"
  /\ (Export => PrintT(<<"BUCKET", ToJson([keys |-> keys, prefixGiven |-> prefixGiven, prefixKey |-> prefixKey, size |-> size])>>))

ListPage ==
  /\ pc = "listing" /\ cursor <= Len(pages)
  /\ acc' = acc \o SelectSeq(pages[cursor], HasSuffix)
  /\ cursor' = cursor + 1
  /\ UNCHANGED <<keys, prefixGiven, prefixKey, size, pages, pc>>
ListDone ==
  /\ pc = "listing" /\ cursor = Len(pages) + 1
  /\ pc' = "done"
  /\ UNCHANGED <<keys, prefixGiven, prefixKey, size, pages, cursor, acc>>
Next == ListPage \/ ListDone
Spec == Init /\ [][Next]_svars /\ WF_svars(Next)

Inv_Result == pc = "done" => acc = Listing(keys, prefixGiven, prefixKey)
Inv_Partial == \A i \in DOMAIN acc : HasSuffix(acc[i]) /\ Matches(acc[i], prefixGiven, prefixKey)
Live_Done == <>(pc = "done")
=============================================================================
