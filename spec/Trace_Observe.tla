---------------------------- MODULE Trace_Observe ----------------------------
(***************************************************************************)
(* Judges recorded observations (code -> spec).  TRACE_FILE: JSON array of *)
(* [id, view, obs]: the view read from the XML by alpha and what the       *)
(* accessors returned.  Clauses: obs_total, obs_agree (C15), timing (C16), *)
(* script_body (C17).                                                      *)
(***************************************************************************)
EXTENDS MosObserve, TLC, TLCExt, Json, IOUtils

Events == JsonDeserialize(IOEnv.TRACE_FILE)
VARIABLE l

RECURSIVE ShapeStr(_)
ShapeStr(ss) ==
  IF ss = <<>> THEN ""
  ELSE LET s == Head(ss)
       IN (IF s.sd # Nil THEN "D" ELSE "") \o (IF s.tt # Nil THEN "t" ELSE "") \o (IF s.mt # Nil THEN "m" ELSE "")
          \o (IF s.st # Nil THEN "S" ELSE "") \o (IF s.en # Nil THEN "E" ELSE "")
          \o (IF Dur(s) = Nil THEN "0" ELSE "") \o (IF Len(ss) > 1 THEN "," ELSE "") \o ShapeStr(Tail(ss))
ViewSig(V) == (IF V.edstart = Nil THEN "noed" ELSE "ed") \o "/" \o ToString(Len(V.stories)) \o "/" \o ShapeStr(V.stories)

TInit == l = 1
TNext ==
  /\ l <= Len(Events)
  /\ LET ev == Events[l]
         f == ObsFailing(ev.view, ev.obs)
     IN f # <<>> => PrintT(<<"BAD", ToJson([at |-> l, id |-> ev.id, k |-> "observe", clauses |-> f,
                                            sig |-> ViewSig(ev.view), raised |-> ev.obs.raised])>>)
  /\ l' = l + 1
  /\ (l = Len(Events) => PrintT(<<"JUDGED", ToString(Len(Events))>>))
TSpec == TInit /\ [][TNext]_l
AllConsumed == TLCGet("stats").diameter - 1 = Len(Events)
=============================================================================
