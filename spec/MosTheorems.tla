---------------------------- MODULE MosTheorems ----------------------------
(***************************************************************************)
(* Declarative statements of the ordering properties C01 / C02, written    *)
(* over plain ID sequences and WITHOUT using the constructive helpers of   *)
(* MosMerge (MoveTo, InsertAt, ...).  TLC checks on the bounded models     *)
(* that every pinned result of Merge satisfies them, so that the oracle    *)
(* used against the implementation is itself checked against the wording   *)
(* of the property ("contiguous, in message order, immediately before the  *)
(* target; everything else keeps its relative order").                     *)
(*                                                                         *)
(* Each statement determines the resulting sequence uniquely, so together  *)
(* with MosMerge's constructive definition this is a two-version check.    *)
(***************************************************************************)
EXTENDS MosJudge

SeqWithout(s, X) == SelectSeq(s, LAMBDA y : y \notin X)

(* X (a sequence without repeats) occurs in s contiguously and in order,  *)
(* immediately followed by `next` ("END" = nothing follows)               *)
BlockBefore(s, X, next) ==
  \/ X = <<>>
  \/ \E k \in 1..Len(s) :
        /\ k + Len(X) - 1 <= Len(s)
        /\ \A i \in DOMAIN X : s[k + i - 1] = X[i]
        /\ IF next = "END" THEN k + Len(X) - 1 = Len(s)
           ELSE k + Len(X) <= Len(s) /\ s[k + Len(X)] = next

(* "inserted or moved elements appear, in message order, immediately      *)
(*  before the target; all other elements keep their relative order"      *)
PlacedBefore(pre, post, X, next) ==
  /\ BlockBefore(post, X, next)
  /\ SeqWithout(post, Range(X)) = SeqWithout(pre, Range(X))

(* "replacement elements occupy the replaced element's position"          *)
ReplacedInPlace(pre, post, t, X) ==
  \E k \in DOMAIN pre :
     /\ pre[k] = t
     /\ Len(post) = Len(pre) - 1 + Len(X)
     /\ \A i \in 1..(k-1) : post[i] = pre[i]
     /\ \A i \in DOMAIN X : post[k + i - 1] = X[i]
     /\ \A i \in (k+1)..Len(pre) : post[i + Len(X) - 1] = pre[i]

(* "swapped elements exchange positions"                                  *)
Exchanged(pre, post, a, b) ==
  /\ Len(post) = Len(pre)
  /\ \A k \in DOMAIN pre :
        post[k] = IF pre[k] = a THEN b ELSE IF pre[k] = b THEN a ELSE pre[k]

(* "every named deleted element is gone, the others keep their order"     *)
DeletedGone(pre, post, D) == post = SeqWithout(pre, D)

(* ---------------------------------------------------------------------- *)
(* The theorem for one (pre-sequence, message, result) triple.            *)
(* seqPre / seqPost: the ID sequence of the container before / after.     *)
(* Only pinned, fully resolving, duplicate-free cases are constrained -   *)
(* exactly the premise of C01 / C02.                                      *)
(* ---------------------------------------------------------------------- *)
Pinned(R) == Cardinality(R) = 1 /\ \A r \in R : r.status = "ok" /\ r.warns = <<>> /\ ~r.loose

TargetNext(m, ref) == IF ref.shape = "id" THEN ref.id ELSE "END"

OrderTheorem(seqPre, seqPost, m) ==
  CASE m.cls \in {"StoryAppend"} ->
         PlacedBefore(seqPre, seqPost, IdsOf(m.carried), "END")
    [] m.cls \in {"StoryInsert", "EAStoryInsert"} ->
         PlacedBefore(seqPre, seqPost, IdsOf(m.carried), TargetNext(m, m.story))
    [] m.cls \in {"ItemInsert", "EAItemInsert"} ->
         PlacedBefore(seqPre, seqPost, IdsOf(m.carried), TargetNext(m, m.item))
    [] m.cls = "StoryMove" ->
         PlacedBefore(seqPre, seqPost, <<m.ids[1].id>>,
                      IF Len(m.ids) >= 2 THEN TargetNext(m, m.ids[2]) ELSE "END")
    [] m.cls = "EAStoryMove" ->
         PlacedBefore(seqPre, seqPost, IdsOf(m.ids), TargetNext(m, m.story))
    [] m.cls = "ItemMoveMultiple" ->
         PlacedBefore(seqPre, seqPost, IdsOf(SubSeq(m.ids, 1, Len(m.ids)-1)),
                      TargetNext(m, m.ids[Len(m.ids)]))
    [] m.cls = "EAItemMove" ->
         PlacedBefore(seqPre, seqPost, IdsOf(m.ids), TargetNext(m, m.item))
    [] m.cls \in {"StoryReplace", "EAStoryReplace"} ->
         ReplacedInPlace(seqPre, seqPost, m.story.id, IdsOf(m.carried))
    [] m.cls \in {"ItemReplace", "EAItemReplace"} ->
         ReplacedInPlace(seqPre, seqPost, m.item.id, IdsOf(m.carried))
    [] m.cls = "StorySend" ->
         ReplacedInPlace(seqPre, seqPost, m.story.id, <<m.story.id>>)
    [] m.cls \in {"EAStorySwap", "EAItemSwap"} ->
         Exchanged(seqPre, seqPost, m.ids[1].id, m.ids[2].id)
    [] m.cls \in {"StoryDelete", "EAStoryDelete", "ItemDelete", "EAItemDelete"} ->
         DeletedGone(seqPre, seqPost, RefIds(m.ids))
    [] OTHER -> TRUE

T_Order(ro, m) ==
  LET R == Merge(ro, m)
  IN (Shaped(m) /\ Pinned(R) /\ m.cls \in (StoryClasses \cup ItemClasses)) =>
       \A r \in R : OrderTheorem(Container(ro, m), Container(r.post, m), m)

(* every allowed result passes every clause of the judge: the spec is     *)
(* consistent with the lenses it is compared through                      *)
T_SpecConforms(ro, m) == \A r \in Merge(ro, m) : Failing(SpecEvent(ro, m, r)) = <<>>

(* failure atomicity and multiset preservation, directly on Merge         *)
T_FailAtomic(ro, m) == \A r \in Merge(ro, m) : r.status # "ok" => r.post = ro
T_Perm(ro, m) ==
  \A r \in Merge(ro, m) :
     /\ m.cls \in MoveSwapStory => SameBag(r.post.kids, ro.kids)
     /\ (m.cls \in MoveSwapItem /\ AddrIdx(ro, m) # 0) => SameBag(AddrKids(r.post, m), AddrKids(ro, m))

(* Merge is total: at least one allowed result for every input            *)
T_Total(ro, m) == Merge(ro, m) # {}

=============================================================================
