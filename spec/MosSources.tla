------------------------------ MODULE MosSources ------------------------------
(***************************************************************************)
(* C18: where documents come from.                                         *)
(*                                                                         *)
(* S3 listing: the bucket answers a listing request for a prefix in pages. *)
(* A key is [under, suf, n]: under the requested prefix or not, ending with *)
(* the suffix / containing it in the middle / not at all, n = its rank.     *)
(*  The service only returns *)
(* keys under the prefix (an empty prefix matches every key), PageSize per *)
(* page; a listing without results is one page without contents.           *)
(* get_mos_files must return every key under the prefix that has the       *)
(* suffix, in listing order, whatever the number of pages.                 *)
(*                                                                         *)
(* Loading: a document loaded from a file, a str, bytes or an S3 object    *)
(* with the same content is the same abstract value (class, serialisation).*)
(***************************************************************************)
EXTENDS Naturals, Sequences, FiniteSets

(* prefixKey = 0: the prefix is the directory (when given); prefixKey = i: *)
(* the prefix is the complete name of key i - the listing is that key     *)
Matches(k, prefixGiven, prefixKey) == IF prefixKey # 0 THEN k.n = prefixKey ELSE (~prefixGiven) \/ k.under

(* what the service will send: the matching keys, in key order            *)
Served(keys, prefixGiven, prefixKey) == SelectSeq(keys, LAMBDA k : Matches(k, prefixGiven, prefixKey))

(* the pages of a listing                                                 *)
RECURSIVE Pages(_, _)
Pages(s, size) ==
  IF s = <<>> THEN <<>>
  ELSE IF Len(s) <= size THEN <<s>>
  ELSE <<SubSeq(s, 1, size)>> \o Pages(SubSeq(s, size + 1, Len(s)), size)

ListingPages(keys, prefixGiven, prefixKey, size) ==
  LET sv == Served(keys, prefixGiven, prefixKey) IN IF sv = <<>> THEN << <<>> >> ELSE Pages(sv, size)

(* the required result                                                    *)
(* k.suf: "end" - the key ends with the suffix; "mid" - the suffix occurs inside the key only;  *)
(*        "none"                                                                                *)
(* k.suf: "end" the key ends with the suffix; "mid" the suffix occurs but not at the end; "none"; "upper" the key     *)
(* ends with the suffix spelled in upper case - another string, so not the suffix                                  *)
HasSuffix(k) == k.suf = "end"
(* the listing asked with the upper-case spelling as suffix                                                         *)
HasSuffixUpper(k) == k.suf = "upper"
ListingUpper(keys, prefixGiven, prefixKey) == SelectSeq(Served(keys, prefixGiven, prefixKey), HasSuffixUpper)
Listing(keys, prefixGiven, prefixKey) == SelectSeq(Served(keys, prefixGiven, prefixKey), HasSuffix)

(* sources: all ways of loading one content agree                         *)
SourcesAgree(outcomes) ==
  \A i, j \in DOMAIN outcomes : outcomes[i].cls = outcomes[j].cls /\ outcomes[i].ser = outcomes[j].ser
=============================================================================
