SPECIFICATION Spec
CONSTANTS
  InsertMode = "by_copy"
  MaxNodes = 16
INVARIANT MsgImmutable
INVARIANT NoSharedNodes
PROPERTY NoCrossEffect
CHECK_DEADLOCK FALSE
