SPECIFICATION TSpec
POSTCONDITION AllConsumed
CHECK_DEADLOCK FALSE
