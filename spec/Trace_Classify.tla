--------------------------- MODULE Trace_Classify ---------------------------
(***************************************************************************)
(* Judges recorded classifications (code -> spec).  TRACE_FILE: JSON array *)
(* of [id, doc, outcomes], outcomes: sequence of [via, filt, result] with  *)
(*   via    : "str" | "bytes" | "file" | "subprocess"                      *)
(*   filt   : warning filter in force: "default" | "error"                 *)
(*   result : class name, library exception name, or "crash:<Type>"        *)
(* Clauses: classify_ok (= Classify(doc)), classify_contained (no built-in *)
(* exception), classify_same (all sources / filters agree).                *)
(***************************************************************************)
EXTENDS MosClassify, TLCExt, IOUtils

Events == JsonDeserialize(IOEnv.TRACE_FILE)
VARIABLE l

TInit == l = 1

Range(s) == { s[i] : i \in DOMAIN s }
IsCrash(r) == r \notin AllResults

Failing(ev) ==
  LET want == Classify(ev.doc)
      rs == { ev.outcomes[i].result : i \in DOMAIN ev.outcomes }
  IN (IF \A r \in rs : r = want THEN <<>> ELSE <<"classify_ok">>)
     \o (IF \E r \in rs : IsCrash(r) /\ ev.doc.wf = "ok" THEN <<"classify_contained">> ELSE <<>>)
     \o (IF Cardinality(rs) <= 1 THEN <<>> ELSE <<"classify_same">>)

DocSig(d) ==
  IF d.wf # "ok" THEN "malformed:" \o d.wf
  ELSE LET i == FirstMsg(d.kids)
       IN IF i = 0 THEN "none/root=" \o d.root
          ELSE LET k == d.kids[i]
               IN k.tag \o (IF k.childless THEN "/childless" ELSE "")
                  \o (IF k.tag = "roElementAction"
                      THEN "/op=" \o k.op \o "/t=" \o k.tgt \o "/s=" \o k.src
                           \o (IF k.tgt2 # "absent" \/ k.src2 # "absent" THEN "/t2=" \o k.tgt2 \o "/s2=" \o k.src2 ELSE "")
                      ELSE "")

TNext ==
  /\ l <= Len(Events)
  /\ LET ev == Events[l]
         f == Failing(ev)
         got == { ev.outcomes[i].result : i \in DOMAIN ev.outcomes }
     IN f # <<>> => PrintT(<<"BAD", ToJson([at |-> l, id |-> ev.id, k |-> "classify", clauses |-> f,
                                            sig |-> DocSig(ev.doc) \o "/want=" \o Classify(ev.doc),
                                            got |-> got])>>)
  /\ l' = l + 1
  /\ (l = Len(Events) => PrintT(<<"JUDGED", ToString(Len(Events))>>))

TSpec == TInit /\ [][TNext]_l
AllConsumed == TLCGet("stats").diameter - 1 = Len(Events)
=============================================================================
