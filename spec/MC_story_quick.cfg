SPECIFICATION Spec
CONSTANTS
  Classes = {"StorySend", "StoryAppend", "StoryDelete", "StoryInsert", "StoryMove", "StoryReplace", "EAStoryReplace", "EAStoryDelete", "EAStoryInsert", "EAStorySwap", "EAStoryMove"}
  MaxStories = 3
  Layouts = {"plain", "between", "trailing", "both"}
  MaxSrc = 2
  MaxCarried = 2
  MaxItems = 0
  ILayouts = {}
  Export = TRUE
INVARIANT Inv_Total
INVARIANT Inv_Order
INVARIANT Inv_SpecConforms
INVARIANT Inv_FailAtomic
INVARIANT Inv_Perm
INVARIANT Inv_Member
CHECK_DEADLOCK FALSE
