------------------------------ MODULE MosExpose ------------------------------
(***************************************************************************)
(* C20: what the accessors of a message object must expose, as a function  *)
(* of the abstract message: the target story / item, the source IDs in     *)
(* message order, the carried stories / items with their content.          *)
(* A blank or missing target is exposed as absent (None), never as some    *)
(* other ID.  "n/a": the class has no such accessor.                       *)
(***************************************************************************)
EXTENDS MosJudge

NA == "n/a"
OptRef(ref) == IF ref.shape = "id" THEN ref.id ELSE None

HasTargetStory ==
  {"StorySend", "StoryInsert", "StoryMove", "StoryReplace", "ItemDelete", "ItemInsert", "ItemMoveMultiple",
   "ItemReplace", "EAStoryReplace", "EAItemReplace", "EAItemDelete", "EAStoryInsert", "EAItemInsert",
   "EAItemSwap", "EAStoryMove", "EAItemMove"}
HasTargetItem == {"ItemInsert", "ItemMoveMultiple", "ItemReplace", "EAItemReplace", "EAItemInsert", "EAItemMove"}
HasSources == {"StoryDelete", "StoryMove", "ItemDelete", "ItemMoveMultiple", "EAStoryDelete", "EAItemDelete",
               "EAStorySwap", "EAItemSwap", "EAStoryMove", "EAItemMove"}
HasCarried == {"StoryAppend", "StoryInsert", "StoryReplace", "ItemInsert", "ItemReplace", "EAStoryReplace",
               "EAItemReplace", "EAStoryInsert", "EAItemInsert"}

ExpTargetStory(m) ==
  IF m.cls \notin HasTargetStory THEN NA
  ELSE IF m.cls = "StoryMove" THEN OptRef(TargetRef(m))
  ELSE OptRef(m.story)

ExpTargetItem(m) ==
  IF m.cls \notin HasTargetItem THEN NA
  ELSE IF m.cls = "ItemMoveMultiple" THEN OptRef(TargetRef(m))
  ELSE OptRef(m.item)

ExpSources(m) ==
  IF m.cls \notin HasSources THEN <<>>
  ELSE LET s == SourceRefs(m) IN [i \in DOMAIN s |-> OptRef(s[i])]

ExpCarried(m) ==
  IF m.cls = "StorySend" THEN <<Flatten(m)>>
  ELSE IF m.cls \in HasCarried THEN m.carried ELSE <<>>

(* an observation: [tstory, titem, sources, carried, raised, inspect_ok, mentions] *)
ExposeFailing(m, o) ==
  IF ~Shaped(m) THEN <<>>
  ELSE (IF o.raised = <<>>
           /\ o.tstory = ExpTargetStory(m)
           /\ o.titem = ExpTargetItem(m)
           /\ o.sources = ExpSources(m)
           /\ o.carried = ExpCarried(m)
        THEN <<>> ELSE <<"exposed_ids">>)
       \o (IF o.inspect_ok /\ o.mentions THEN <<>> ELSE <<"inspect_ok">>)
=============================================================================
