SPECIFICATION Spec
CONSTANTS
  Family = "timing"
  MaxN = 2
  MaxLen = 1
  MaxBody = 1
  Export = TRUE
INVARIANT Inv_Sums
INVARIANT Inv_Chain
INVARIANT Inv_Explicit
INVARIANT Inv_DurPrecedence
INVARIANT Inv_Script
INVARIANT Inv_Concat
CHECK_DEADLOCK FALSE
