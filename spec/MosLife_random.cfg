SPECIFICATION Spec
CONSTANTS
  MaxSrc = 2
  MaxCarried = 2
  Objs = {1, 2}
  Depth = 8
  Mode = "random"
  Export = TRUE
INVARIANT Inv_Export
INVARIANT Inv_CompletedIffEnded
INVARIANT Inv_Envelope
INVARIANT Inv_TypeOK
PROPERTY Act_Terminal
CHECK_DEADLOCK FALSE
