SPECIFICATION Spec
CONSTANTS
  MaxKeys = 3
  MaxPage = 2
  Export = TRUE
INVARIANT Inv_Result
INVARIANT Inv_Partial
PROPERTY Live_Done
CHECK_DEADLOCK FALSE
