SPECIFICATION Spec
CONSTANTS
  Thorough = FALSE
  Export = TRUE
INVARIANT Inv_Total
INVARIANT Inv_OnlyMsgElem
INVARIANT Inv_TagTable
CHECK_DEADLOCK FALSE
