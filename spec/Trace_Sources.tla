---------------------------- MODULE Trace_Sources ----------------------------
(* Judges recorded listings and loads.  TRACE_FILE: JSON array of          *)
(*  [id, k = "list", keys, prefixGiven, prefixKey, size, result : Seq(n), raised]     *)
(*  [id, k = "load", what, outcomes : Seq([via, cls, ser])]                *)
EXTENDS MosSources, TLC, TLCExt, Json, IOUtils
Events == JsonDeserialize(IOEnv.TRACE_FILE)
VARIABLE l

Failing(ev) ==
  IF ev.k = "list"
  THEN LET want == IF ev.sfx = "upper" THEN ListingUpper(ev.keys, ev.prefixGiven, ev.prefixKey)
                   ELSE Listing(ev.keys, ev.prefixGiven, ev.prefixKey)
       IN IF ev.raised = "~" /\ ev.result = [i \in DOMAIN want |-> want[i].n] THEN <<>> ELSE <<"s3_listing">>
  ELSE IF SourcesAgree(ev.outcomes) THEN <<>> ELSE <<"sources_same">>

RECURSIVE KeyStr(_)
KeyStr(ks) == IF ks = <<>> THEN "" ELSE (IF Head(ks).under THEN "u" ELSE "-") \o (IF Head(ks).suf = "end" THEN "s" ELSE IF Head(ks).suf = "mid" THEN "m" ELSE IF Head(ks).suf = "upper" THEN "U" ELSE "-")
                                    \o (IF Len(ks) > 1 THEN "," ELSE "") \o KeyStr(Tail(ks))
Sig(ev) == IF ev.k = "list" THEN "list[" \o (IF Len(ev.keys) > 9 THEN "big" \o ToString(Len(ev.keys)) ELSE KeyStr(ev.keys)) \o "]/prefix=" \o (IF ev.prefixKey # 0 THEN "key" \o ToString(ev.prefixKey) ELSE ToString(ev.prefixGiven)) \o "/page=" \o ToString(ev.size) \o "/" \o ev.how
           ELSE "load/" \o ev.what

TInit == l = 1
TNext ==
  /\ l <= Len(Events)
  /\ LET ev == Events[l]
         f == Failing(ev)
     IN f # <<>> => PrintT(<<"BAD", ToJson([at |-> l, id |-> ev.id, k |-> ev.k, clauses |-> f, sig |-> Sig(ev)])>>)
  /\ l' = l + 1
  /\ (l = Len(Events) => PrintT(<<"JUDGED", ToString(Len(Events))>>))
TSpec == TInit /\ [][TNext]_l
AllConsumed == TLCGet("stats").diameter - 1 = Len(Events)
=============================================================================
