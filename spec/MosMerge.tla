------------------------------ MODULE MosMerge ------------------------------
(***************************************************************************)
(* What `ro += msg` must do, for each of the 24 message classes.           *)
(*                                                                         *)
(* Merge(ro, m) is the SET of allowed results [post, status, warns, loose].*)
(* It has one element wherever the property statements (C01-C07) or the    *)
(* library's documented contract pin the result, and several where they    *)
(* leave a choice (DESIGN.md section 5 / Appendix A):                      *)
(*   * an element that cannot be found: either MosMergeError with the      *)
(*     running order unchanged, or one warning per such element while the  *)
(*     rest of the message is applied (C06 allows both)                    *)
(*   * a duplicate story in an insert: skipped with DuplicateStoryWarning, *)
(*     or MosMergeError                                                    *)
(*   * self-contradictory moves: `loose` - any permutation that keeps the  *)
(*     un-named elements in order, or MosMergeError                        *)
(*                                                                         *)
(* A message is the record                                                 *)
(*   [cls, story, item, ids, carried, stok, hdr, bodyPos, body]            *)
(*   story, item : Ref  - the story / item reference the class uses        *)
(*   ids         : Seq(Ref) - listed IDs (delete/move/swap sources, ...)   *)
(*   carried     : Seq(Node) - stories / items / metadata carried          *)
(*   stok : roStorySend / roReplace - the message element's own tok (its    *)
(*       attributes), which becomes the story's / the roCreate's           *)
(*   hdr, bodyPos, body : roStorySend only -                                *)
(*       its children other than <storyBody>, the position <storyBody> had *)
(*       among them (0 = absent), and the children of <storyBody>          *)
(***************************************************************************)
EXTENDS MosTypes

SNF == "StoryNotFoundWarning"
INF == "ItemNotFoundWarning"
DUP == "DuplicateStoryWarning"

StoryClasses == {"StorySend", "StoryAppend", "StoryDelete", "StoryInsert", "StoryMove",
                 "StoryReplace", "EAStoryReplace", "EAStoryDelete", "EAStoryInsert",
                 "EAStorySwap", "EAStoryMove"}
ItemClasses  == {"ItemDelete", "ItemInsert", "ItemMoveMultiple", "ItemReplace",
                 "EAItemReplace", "EAItemDelete", "EAItemInsert", "EAItemSwap", "EAItemMove"}
OtherClasses == {"MetaDataReplace", "ReadyToAir", "RunningOrderReplace", "RunningOrderEnd"}
AllClasses   == StoryClasses \cup ItemClasses \cup OtherClasses
MoveSwapStory == {"StoryMove", "EAStoryMove", "EAStorySwap"}
MoveSwapItem  == {"ItemMoveMultiple", "EAItemMove", "EAItemSwap"}

(* ---------------------------------------------------------------------- *)
(* Outcomes of operating on one child sequence                            *)
(* ---------------------------------------------------------------------- *)
Ok(k, w)  == [kids |-> k, status |-> "ok",          warns |-> w,    loose |-> FALSE]
Err(k)    == [kids |-> k, status |-> "merge_error", warns |-> <<>>, loose |-> FALSE]
Loose(k)  == [kids |-> k, status |-> "ok",          warns |-> <<>>, loose |-> TRUE]
Rep(n, x) == [i \in 1..n |-> x]
Miss(k, cat) == { Err(k), Ok(k, <<cat>>) }     \* unresolvable target: raise, or warn and do nothing
(* unresolvable target plus up to `extra` unresolvable sources: one warning each *)
MissN(k, cat, extra) == { Err(k) } \cup { Ok(k, Rep(n, cat)) : n \in 1..(1 + extra) }
NMiss(s, tag, refs) == Cardinality({ i \in DOMAIN refs : ResolveIdx(s, tag, refs[i]) = 0 })

RECURSIVE PickIdx(_, _, _)
PickIdx(s, I, i) ==
  IF i > Len(s) THEN <<>>
  ELSE (IF i \in I THEN <<s[i]>> ELSE <<>>) \o PickIdx(s, I, i+1)

(* ---------------------------------------------------------------------- *)
(* Generic operations on a sequence s of children, for elements `tag`     *)
(* ---------------------------------------------------------------------- *)

(* delete: each listed reference that resolves (in the sequence as it is  *)
(* after the earlier deletions) is removed; every other one is a miss     *)
RECURSIVE DelFold(_, _, _, _, _)
DelFold(s, tag, refs, nf, w) ==
  IF refs = <<>> THEN <<s, w>>
  ELSE LET i == ResolveIdx(s, tag, Head(refs))
       IN IF i = 0 THEN DelFold(s, tag, Tail(refs), nf, Append(w, nf))
                   ELSE DelFold(RemoveAt(s, i), tag, Tail(refs), nf, w)

GDelete(s, tag, refs, nf) ==
  LET r == DelFold(s, tag, refs, nf, <<>>)
  IN {Ok(r[1], r[2])} \cup (IF r[2] # <<>> THEN {Err(s)} ELSE {})

(* carried elements by index: those whose id is not yet present in s      *)
(* (ids in `except` do not count as present), and among them the first    *)
(* occurrence of each id inside the message                               *)
NotPresentIdx(s, tag, new, except) ==
  { i \in DOMAIN new : new[i].id \notin (IdSet(s, tag) \ except) }
FreshIdx(s, tag, new, except) ==
  { i \in NotPresentIdx(s, tag, new, except) : \A j \in 1..(i-1) : new[j].id # new[i].id }

(* What may be done with the carried elements `new`, given which of them  *)
(* duplicate an element already there (must be skipped with one           *)
(* DuplicateStoryWarning each when the class de-duplicates) and which     *)
(* merely repeat an id inside the message itself (no property says        *)
(* whether such a repeat is inserted or skipped with a warning).          *)
(* Place(xs) builds the resulting sequence from the elements kept.        *)
DupChoices(s, tag, new, except, dedupe, Place(_)) ==
  LET np == NotPresentIdx(s, tag, new, except)
      fr == FreshIdx(s, tag, new, except)
      keepNP == PickIdx(new, np, 1)
      keepFR == PickIdx(new, fr, 1)
  IN IF Cardinality(fr) = Len(new) THEN {Ok(Place(new), <<>>)}
     ELSE {Ok(Place(keepNP), Rep(Len(new) - Len(keepNP), DUP)),
           Ok(Place(keepFR), Rep(Len(new) - Len(keepFR), DUP)),
           Err(s)}
          \cup (IF dedupe THEN {} ELSE {Ok(Place(new), <<>>)})

(* insert `new` so that new[1] lands at index pos (Len(s)+1 = end)         *)
GInsert(s, tag, pos, new, dedupe) ==
  DupChoices(s, tag, new, {}, dedupe, LAMBDA xs : InsertAt(s, pos, xs))

(* replace the element at index t by `new` (in order, at t's position)    *)
GReplace(s, tag, t, new) ==
  IF new = <<>> THEN {Err(s), Ok(RemoveAt(s, t), <<>>)}     \* not schema-shaped
  ELSE DupChoices(s, tag, new, {s[t].id}, FALSE, LAMBDA xs : ReplaceAt(s, t, xs))

(* move the elements F (ids, in message order) so that they stand,        *)
(* contiguous and in that order, immediately before tgt (None = end)      *)
MoveTo(s, tag, F, tgt) ==
  LET moved == [i \in DOMAIN F |-> s[Idx(s, tag, F[i])]]
      rest  == Without(s, tag, Range(F))
      pos   == IF tgt = None THEN Len(rest) + 1 ELSE Idx(rest, tag, tgt)
  IN InsertAt(rest, pos, moved)

GMove(s, tag, srcRefs, tgt, nf) ==
  LET foundI  == { i \in DOMAIN srcRefs : ResolveIdx(s, tag, srcRefs[i]) # 0 }
      foundR  == PickIdx(srcRefs, foundI, 1)
      F       == DedupSeq(IdsOf(foundR))
      nMiss   == Len(srcRefs) - Len(foundR)
      repeats == Len(F) # Len(foundR)
      selfref == tgt # None /\ tgt \in Range(F)
  IN IF repeats \/ selfref THEN {Err(s), Loose(s)}
     ELSE {Ok(MoveTo(s, tag, F, tgt), Rep(nMiss, nf))}
          \cup (IF nMiss > 0 THEN {Err(s)} ELSE {})

(* swap: exactly two references                                           *)
GSwap(s, tag, refs, nf) ==
  LET i == ResolveIdx(s, tag, refs[1])
      j == ResolveIdx(s, tag, refs[2])
      nMiss == (IF i = 0 THEN 1 ELSE 0) + (IF j = 0 THEN 1 ELSE 0)
  IN IF nMiss > 0 THEN {Err(s), Ok(s, Rep(nMiss, nf))}
     ELSE IF i = j THEN {Ok(s, <<>>), Err(s)}
     ELSE {Ok([s EXCEPT ![i] = s[j], ![j] = s[i]], <<>>)}

(* a target reference used for "before this element":                      *)
(*   resolves          -> that index                                       *)
(*   blank / absent    -> end, if `endDoc` (the library documents it),     *)
(*                        else {end, ERR, warn unchanged}                  *)
(*   unknown id        -> {ERR, warn unchanged}                            *)
(* Returns [kind |-> "at", pos, id], "end", "endOrMiss" or "miss"          *)
Target(s, tag, ref, endBlank, endAbsent) ==
  LET i == ResolveIdx(s, tag, ref)
  IN IF i # 0 THEN [kind |-> "at", pos |-> i, id |-> ref.id]
     ELSE IF ref.shape = "blank"
          THEN [kind |-> IF endBlank  THEN "end" ELSE "endOrMiss", pos |-> Len(s)+1, id |-> None]
     ELSE IF ref.shape = "absent"
          THEN [kind |-> IF endAbsent THEN "end" ELSE "endOrMiss", pos |-> Len(s)+1, id |-> None]
     ELSE [kind |-> "miss", pos |-> 0, id |-> None]

WithTarget(s, t, nf, R) ==     \* R: the results when the target is usable
  CASE t.kind \in {"at", "end"} -> R
    [] t.kind = "endOrMiss"     -> R \cup Miss(s, nf)
    [] OTHER                    -> Miss(s, nf)

(* ---------------------------------------------------------------------- *)
(* Is the message schema-shaped for its class?  (C12: required tags       *)
(* present.)  Outside this only failure atomicity is judged.              *)
(* ---------------------------------------------------------------------- *)
Shaped(m) ==
  CASE m.cls = "StorySend"            -> m.bodyPos > 0 /\ m.story.shape # "absent"
    [] m.cls \in {"StoryAppend"}      -> Len(m.carried) >= 1
    [] m.cls \in {"StoryDelete", "EAStoryDelete"} -> Len(m.ids) >= 1
    [] m.cls = "StoryMove"            -> Len(m.ids) \in {1, 2}
    [] m.cls \in {"EAStorySwap", "EAItemSwap"} -> Len(m.ids) = 2
    [] m.cls \in {"StoryReplace", "EAStoryReplace", "StoryInsert", "EAStoryInsert",
                  "ItemReplace", "EAItemReplace", "ItemInsert", "EAItemInsert"}
                                      -> Len(m.carried) >= 1
    [] m.cls \in {"ItemDelete", "EAItemDelete", "EAItemMove", "EAStoryMove"} -> Len(m.ids) >= 1
    [] m.cls = "ItemMoveMultiple"     -> Len(m.ids) >= 2
    [] OTHER                          -> TRUE

(* ---------------------------------------------------------------------- *)
(* roStorySend -> story                                                   *)
(* ---------------------------------------------------------------------- *)
Retag(c) == IF c.tag = "storyItem" THEN [c EXCEPT !.tag = "item"] ELSE c
Flatten(m) ==
  Nd("story", m.story.id, m.stok,
     IF m.bodyPos = 0 THEN m.hdr          \* no <storyBody> (not schema-shaped): nothing to splice
     ELSE InsertAt(m.hdr, m.bodyPos, [i \in DOMAIN m.body |-> Retag(m.body[i])]))

(* ---------------------------------------------------------------------- *)
(* roMetadataReplace                                                      *)
(* ---------------------------------------------------------------------- *)
MdKey(c) == <<c.tag, c.id>>
RECURSIVE MdrFold(_, _)
MdrFold(K, cs) ==
  IF cs = <<>> THEN K
  ELSE LET c == Head(cs)
           i == FirstIdx(K, LAMBDA x : ~IsStory(x) /\ MdKey(x) = MdKey(c))
       IN MdrFold(IF i = 0 THEN Append(K, c) ELSE ReplaceAt(K, i, <<c>>), Tail(cs))

(* ---------------------------------------------------------------------- *)
(* Story-level classes: results over ro.kids                              *)
(* ---------------------------------------------------------------------- *)
StoryLevel(K, m) ==
  CASE m.cls = "StorySend" ->
         LET i == ResolveIdx(K, "story", m.story)
         IN IF i = 0 THEN Miss(K, SNF) ELSE {Ok(ReplaceAt(K, i, <<Flatten(m)>>), <<>>)}
    [] m.cls = "StoryAppend" ->
         GInsert(K, "story", Len(K)+1, m.carried, FALSE)
    [] m.cls \in {"StoryDelete", "EAStoryDelete"} ->
         GDelete(K, "story", m.ids, SNF)
    [] m.cls = "StoryInsert" ->
         LET t == Target(K, "story", m.story, FALSE, FALSE)
         IN WithTarget(K, t, SNF, GInsert(K, "story", t.pos, m.carried, TRUE))
    [] m.cls = "EAStoryInsert" ->          \* blank storyID = end (documented, tested)
         LET t == Target(K, "story", m.story, TRUE, FALSE)
         IN WithTarget(K, t, SNF, GInsert(K, "story", t.pos, m.carried, TRUE))
    [] m.cls = "StoryMove" ->
         IF Len(m.ids) = 0 THEN {Err(K)}
         ELSE LET tref == IF Len(m.ids) >= 2 THEN m.ids[2] ELSE RefAbsent
                  t    == Target(K, "story", tref, FALSE, TRUE)   \* no 2nd storyID = end (tested)
              IN IF t.kind = "miss"
                 THEN MissN(K, SNF, NMiss(K, "story", <<m.ids[1]>>))
                 ELSE LET R == GMove(K, "story", <<m.ids[1]>>, t.id, SNF)
                      IN IF t.kind = "endOrMiss" THEN R \cup Miss(K, SNF) ELSE R
    [] m.cls = "EAStoryMove" ->
         LET t == Target(K, "story", m.story, FALSE, TRUE)        \* no element_target = end (tested)
         IN IF t.kind = "miss" THEN MissN(K, SNF, NMiss(K, "story", m.ids))
            ELSE LET R == GMove(K, "story", m.ids, t.id, SNF)
                 IN IF t.kind = "endOrMiss" THEN R \cup Miss(K, SNF) ELSE R
    [] m.cls \in {"StoryReplace", "EAStoryReplace"} ->
         LET i == ResolveIdx(K, "story", m.story)
         IN IF i = 0 THEN Miss(K, SNF) ELSE GReplace(K, "story", i, m.carried)
    [] m.cls = "EAStorySwap" ->
         IF Len(m.ids) # 2 THEN {Err(K)} ELSE GSwap(K, "story", m.ids, SNF)

(* ---------------------------------------------------------------------- *)
(* Item-level classes: results over the addressed story's children        *)
(* ---------------------------------------------------------------------- *)
ItemLevel(S, m) ==
  CASE m.cls \in {"ItemDelete", "EAItemDelete"} ->
         GDelete(S, "item", m.ids, INF)
    [] m.cls \in {"ItemInsert", "EAItemInsert"} ->      \* blank itemID = end of story (documented)
         LET t == Target(S, "item", m.item, TRUE, TRUE)
         IN WithTarget(S, t, INF, GInsert(S, "item", t.pos, m.carried, FALSE))
    [] m.cls = "ItemMoveMultiple" ->                    \* last itemID is the target; blank = end
         IF Len(m.ids) = 0 THEN {Err(S), Ok(S, <<>>)}
         ELSE LET n == Len(m.ids)
                  t == Target(S, "item", m.ids[n], TRUE, TRUE)
              IN IF t.kind = "miss" THEN MissN(S, INF, NMiss(S, "item", SubSeq(m.ids, 1, n-1)))
                 ELSE GMove(S, "item", SubSeq(m.ids, 1, n-1), t.id, INF)
    [] m.cls = "EAItemMove" ->
         LET t == Target(S, "item", m.item, FALSE, FALSE)
         IN IF t.kind = "miss" THEN MissN(S, INF, NMiss(S, "item", m.ids))
            ELSE LET R == GMove(S, "item", m.ids, t.id, INF)
                 IN IF t.kind = "endOrMiss" THEN R \cup Miss(S, INF) ELSE R
    [] m.cls \in {"ItemReplace", "EAItemReplace"} ->
         LET i == ResolveIdx(S, "item", m.item)
         IN IF i = 0 THEN Miss(S, INF) ELSE GReplace(S, "item", i, m.carried)
    [] m.cls = "EAItemSwap" ->
         IF Len(m.ids) # 2 THEN {Err(S)} ELSE GSwap(S, "item", m.ids, INF)

(* ---------------------------------------------------------------------- *)
(* Merge                                                                  *)
(* ---------------------------------------------------------------------- *)
Result(post, r) == [post |-> post, status |-> r.status, warns |-> r.warns, loose |-> r.loose]

MergeOpen(ro, m) ==
  CASE m.cls \in StoryClasses ->
         { Result([ro EXCEPT !.kids = r.kids], r) : r \in StoryLevel(ro.kids, m) }
    [] m.cls \in ItemClasses ->
         LET si == ResolveIdx(ro.kids, "story", m.story)
         IN IF si = 0
            THEN { Result(ro, r) : r \in Miss(ro.kids, SNF) }
            ELSE { Result([ro EXCEPT !.kids[si].kids = r.kids], r)
                     : r \in ItemLevel(ro.kids[si].kids, m) }
    [] m.cls = "MetaDataReplace" ->
         { Result([ro EXCEPT !.kids = MdrFold(ro.kids, m.carried)], Ok(<<>>, <<>>)) }
    [] m.cls = "ReadyToAir" ->
         { Result(ro, Ok(<<>>, <<>>)) }
    [] m.cls = "RunningOrderReplace" ->      \* the new <roCreate> is the sent <roReplace>: its children and its own attributes
         { Result([ro EXCEPT !.kids = m.carried,
                             !.root = [i \in DOMAIN ro.root |->
                                         IF ro.root[i].tag = "roCreate" THEN [ro.root[i] EXCEPT !.tok = m.stok]
                                         ELSE ro.root[i]]],
                  Ok(<<>>, <<>>)) }
    [] m.cls = "RunningOrderEnd" ->
         { Result([ro EXCEPT !.root = Append(ro.root, Nd("mosromgrmeta", None, None, m.carried))],
                  Ok(<<>>, <<>>)) }

Rejected(ro) == [post |-> ro, status |-> "completed_error", warns |-> <<>>, loose |-> FALSE]

Merge(ro, m) == IF Completed(ro) THEN { Rejected(ro) } ELSE MergeOpen(ro, m)

(* a not-found warning is possible for this (state, message): some         *)
(* reference does not resolve                                              *)
HasMiss(R) == \E r \in R : SNF \in Range(r.warns) \/ INF \in Range(r.warns)
HasLoose(R) == \E r \in R : r.loose

=============================================================================
