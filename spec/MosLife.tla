------------------------------- MODULE MosLife -------------------------------
(***************************************************************************)
(* Histories: any sequence of merges on live running-order objects, with   *)
(* serialise-and-reload steps, re-use of earlier message objects and       *)
(* observation steps in between.  This is the multi-step model behind      *)
(*   C07 completion is faithful, terminal, survives a round trip           *)
(*   C13 merging depends only on content (message objects independent)     *)
(*   C14 every reachable state serialises and reads back identically       *)
(* and the "from every state reached by a prior merge history" part of     *)
(* C01-C06, C12, C15-C17.                                                  *)
(*                                                                         *)
(* ros[o]  : the abstract running order held by live object o              *)
(* hist    : the steps taken so far - exported as one behaviour and        *)
(*           replayed on real objects by harness/behave.py                 *)
(* ended[o]: history variable - a RunningOrderEnd was merged into o        *)
(*                                                                         *)
(* Two ways of exploring it:                                               *)
(*  - exhaustive (Mode = "alphabet"): every history up to Depth over a     *)
(*    small state-dependent alphabet of representative messages            *)
(*  - simulation (Mode = "random"):  tlc -simulate, each step draws any    *)
(*    message of any class from the generators of MosGen                   *)
(***************************************************************************)
EXTENDS MosGen, Json

CONSTANTS
  Objs,        \* live running-order objects, e.g. {1} or {1, 2}
  Depth,       \* steps per behaviour
  Mode,        \* "alphabet" | "random"
  Theme,       \* alphabet mode: "all" | "story" | "item" | "carry" | "share"
  Export       \* TRUE: print each behaviour of length Depth

VARIABLES ros, hist, ended
lvars == <<ros, hist, ended>>

InitShape(o) == IF o = 1 THEN ShapeS(2, "both") ELSE ShapeI(2, "mixed")

Init ==
  /\ ros = [o \in Objs |-> InitShape(o)]
  /\ hist = <<>>
  /\ ended = [o \in Objs |-> FALSE]

(* ---------------------------------------------------------------------- *)
(* Which messages may be sent in state K                                  *)
(* ---------------------------------------------------------------------- *)
FirstStory(K) == LET s == StoryIds(K) IN IF s = <<>> THEN UnknownS ELSE s[1]
LastStory(K)  == LET s == StoryIds(K) IN IF s = <<>> THEN UnknownS ELSE s[Len(s)]
FirstItemOf(K, sid) ==
  LET i == Idx(K, "story", sid)
      its == IF i = 0 THEN <<>> ELSE ItemIds(K[i].kids)
  IN IF its = <<>> THEN UnknownI ELSE its[1]

(* a small alphabet of representative messages, built from the state      *)
SecondStory(K) == LET s == StoryIds(K) IN IF Len(s) < 2 THEN UnknownS ELSE s[2]

(* The alphabets.  Each is a small, state-dependent set of representative *)
(* messages; "all" is their union.  A themed alphabet is small enough for *)
(* every history of length 3 to be enumerated.                            *)
SendTo(K, sid, n, st) == { m \in SendMsgs(K) : m.story = RefId(sid) /\ m.bodyPos = 4 /\ Len(m.body) = n /\ m.stok = st }

AlphabetStory(K) ==          \* story-level traffic, incl. an id that comes back after it was deleted
  LET f == FirstStory(K)
      l == LastStory(K)
      sec == SecondStory(K)
  IN { Msg("StoryAppend", RefAbsent, RefAbsent, <<>>, FreshStories(K, 1)),
       Msg("StoryDelete", RefAbsent, RefAbsent, <<RefId(f)>>, <<>>),
       Msg("StoryMove", RefAbsent, RefAbsent, <<RefId(f), RefId(l)>>, <<>>),
       Msg("EAStorySwap", RefAbsent, RefAbsent, <<RefId(l), RefId(f)>>, <<>>),
       Msg("EAStorySwap", RefAbsent, RefAbsent, <<RefId(l), RefId(sec)>>, <<>>),        \* first story stays
       Msg("StoryReplace", RefId(l), RefAbsent, <<>>, FreshStories(K, 2)),
       Msg("StoryInsert", RefId(l), RefAbsent, <<>>, FreshStories(K, 1)),
       Msg("StoryInsert", RefId(l), RefAbsent, <<>>, <<StoryN("S1", "'")>>),      \* S1 again: duplicate, or back after a delete
       Msg("EAStoryInsert", RefBlank, RefAbsent, <<>>, <<StoryN("S2", "'")>>),
       Msg("EAStoryMove", RefId(sec), RefAbsent, <<RefId(l), RefId(f)>>, <<>>) }
     \cup SendTo(K, l, 4, None)
     \cup { m \in OtherMsgs("RunningOrderReplace", K) : Len(m.carried) = 3 /\ m.carried[3].tag = "story" }

AlphabetItem(K) ==           \* item-level traffic inside the first story, around a roReplace / roStorySend
  LET f == FirstStory(K)
      fi == FirstItemOf(K, f)
      fk == IF Idx(K, "story", f) = 0 THEN <<>> ELSE K[Idx(K, "story", f)].kids
  IN { Msg("ItemDelete", RefId(f), RefAbsent, <<RefId(fi)>>, <<>>),
       Msg("ItemInsert", RefId(f), RefBlank, <<>>, FreshItems(fk, 1)),
       Msg("ItemInsert", RefId(f), RefId(fi), <<>>, FreshItems(fk, 2)),
       Msg("EAItemReplace", RefId(f), RefId(fi), <<>>, FreshItems(fk, 1)),
       Msg("EAItemMove", RefId(f), RefId(fi), <<RefId("I2")>>, <<>>),
       Msg("ItemMoveMultiple", RefId(f), RefAbsent, <<RefId(fi), RefBlank>>, <<>>),
       Msg("EAItemSwap", RefId(f), RefAbsent, <<RefId("I2"), RefId(fi)>>, <<>>) }
     \cup SendTo(K, f, 4, None)
     \cup { m \in OtherMsgs("RunningOrderReplace", K) : Len(m.carried) = 3 /\ m.carried[3].tag = "story" }

AlphabetCarry(K) ==          \* messages that carry content, then edits inside what they carried
  LET f == FirstStory(K)
      l == LastStory(K)
      fi == FirstItemOf(K, f)
      li == FirstItemOf(K, l)
      fk == IF Idx(K, "story", f) = 0 THEN <<>> ELSE K[Idx(K, "story", f)].kids
  IN { Msg("StoryAppend", RefAbsent, RefAbsent, <<>>, FreshStories(K, 1)),
       Msg("StoryReplace", RefId(f), RefAbsent, <<>>, FreshStories(K, 2)),
       Msg("ItemDelete", RefId(f), RefAbsent, <<RefId(fi)>>, <<>>),
       Msg("ItemDelete", RefId(l), RefAbsent, <<RefId(li)>>, <<>>),
       Msg("ItemDelete", RefId(SecondStory(K)), RefAbsent, <<RefId(FirstItemOf(K, SecondStory(K)))>>, <<>>),
       Msg("ItemInsert", RefId(l), RefBlank, <<>>, FreshItems(fk, 1)),
       Msg("StoryAppend", RefAbsent, RefAbsent, <<>>,
           <<StoryEmpty(FreshFrom(FreshPoolS, IdSet(K, "story"))[1])>>),              \* a placeholder story without items
       Msg("EAItemReplace", RefId(f), RefId(fi), <<>>, FreshItems(fk, 1)),
       Msg("MetaDataReplace", RefAbsent, RefAbsent, <<>>,
           << Leaf("roID", RoIdC, "="), Leaf("roSlug", None, "x:newSlug"),
              Leaf("roChannel", None, "x:newChannel") >>) }          \* replaces one element, adds one the running order lacks
     \cup { m \in SendMsgs(K) : m.story = RefId(f) /\ m.bodyPos = 5 /\ Len(m.body) = 1 /\ m.stok = "a:send" }
     \cup { m \in OtherMsgs("RunningOrderReplace", K) : Len(m.carried) = 3 /\ m.carried[3].tag = "story" }

AlphabetMisc(K) ==
  LET f == FirstStory(K)
  IN { Msg("StoryDelete", RefAbsent, RefAbsent, <<RefId(UnknownS)>>, <<>>),
       Msg("StoryAppend", RefAbsent, RefAbsent, <<>>,
           <<StoryNT(FreshFrom(FreshPoolS, IdSet(K, "story"))[1])>>),                     \* a story without timing
       Msg("StoryAppend", RefAbsent, RefAbsent, <<>>, <<StoryN("S1 ", "")>>),     \* an id that differs by trailing blank
       Msg("RunningOrderEnd", RefAbsent, RefAbsent, <<>>, <<Leaf("roDelete", None, "x:roDelete.foreign")>>),
       Msg("StoryReplace", RefId(UnknownS), RefAbsent, <<>>, FreshStories(K, 1)),
       Msg("RunningOrderEnd", RefAbsent, RefAbsent, <<>>, <<Leaf("roDelete", None, "x:roDelete")>>) }
     \cup SendTo(K, FirstStory(K), 5, None)
     \cup { m \in OtherMsgs("RunningOrderReplace", K) : Len(m.carried) = 3 /\ m.carried[3].tag # "story" }

AlphabetShare(K) ==          \* one message object delivered to two running orders, then an edit in one of them
  LET f == FirstStory(K)
      fi == FirstItemOf(K, f)
      fk == IF Idx(K, "story", f) = 0 THEN <<>> ELSE K[Idx(K, "story", f)].kids
  IN { Msg("ItemDelete", RefId(f), RefAbsent, <<RefId(fi)>>, <<>>),
       Msg("ItemInsert", RefId(f), RefBlank, <<>>, FreshItems(fk, 1)),
       Msg("StoryReplace", RefId(f), RefAbsent, <<>>, FreshStories(K, 2)) }
     \cup { m \in SendMsgs(K) : m.story = RefId(f) /\ m.bodyPos = 5 /\ Len(m.body) = 1 /\ m.stok = None }
     \cup { m \in OtherMsgs("RunningOrderReplace", K) :          \* a whole running order delivered to both objects
               Len(m.carried) = 3 /\ m.carried[3].tag = "story" /\ m.stok = None }

Alphabet(K) ==
  CASE Theme = "story" -> AlphabetStory(K)
    [] Theme = "share" -> AlphabetShare(K)
    [] Theme = "item"  -> AlphabetItem(K)
    [] Theme = "carry" -> AlphabetCarry(K)
    [] OTHER -> AlphabetStory(K) \cup AlphabetItem(K) \cup AlphabetCarry(K) \cup AlphabetMisc(K)

StoryIdsSet(K) == IdSet(K, "story")

RandomMsgs(K) ==
  LET cls == RandomElement(AllClasses)
  IN IF cls \in StoryClasses THEN StoryMsgs(cls, K)
     ELSE IF cls \in ItemClasses
          THEN IF StoryIdsSet(K) = {} THEN {} ELSE ItemMsgs(cls, K, RandomElement(StoryIdsSet(K)))
     ELSE OtherMsgs(cls, K)

Candidates(K) ==
  IF Mode = "alphabet" THEN Alphabet(K)
  ELSE LET S == RandomMsgs(K) IN IF S = {} THEN {} ELSE {RandomElement(S)}

(* ---------------------------------------------------------------------- *)
(* Steps                                                                  *)
(* ---------------------------------------------------------------------- *)
Apply(o, m, kind, ref) ==
  \E r \in Merge(ros[o], m) :
     /\ ros' = [ros EXCEPT ![o] = r.post]
     /\ ended' = [ended EXCEPT ![o] = @ \/ (r.status = "ok" /\ m.cls = "RunningOrderEnd")]
     /\ hist' = Append(hist, [k |-> kind, obj |-> o, ref |-> ref, msg |-> m])

(* ro += a freshly parsed message                                         *)
MergeStep == \E o \in Objs : \E m \in Candidates(ros[o].kids) : Apply(o, m, "merge", 0)

(* ro += a message OBJECT that was already merged at step j (into this    *)
(* or another running order).  Content-only merging (C13): the result is  *)
(* Merge of the message's content, as if freshly parsed.                  *)
RemergeStep ==
  \E o \in Objs : \E j \in DOMAIN hist :
     /\ hist[j].k = "merge"
     /\ Apply(o, hist[j].msg, "remerge", j)

NoMsg == Msg("none", RefAbsent, RefAbsent, <<>>, <<>>)

(* str(ro) written out and read back: the identity on the abstract state  *)
ReloadStep ==
  \E o \in Objs :
     /\ hist # <<>> /\ hist[Len(hist)].k # "reload"
     /\ hist' = Append(hist, [k |-> "reload", obj |-> o, ref |-> 0, msg |-> NoMsg])
     /\ UNCHANGED <<ros, ended>>

(* all read accessors are called: no change of state                      *)
ObserveStep ==
  \E o \in Objs :
     /\ hist # <<>> /\ hist[Len(hist)].k # "observe"
     /\ hist' = Append(hist, [k |-> "observe", obj |-> o, ref |-> 0, msg |-> NoMsg])
     /\ UNCHANGED <<ros, ended>>

(* alphabet mode: the FIRST message object of the history is merged again  *)
RemergeFirst ==
  \E o \in Objs : hist # <<>> /\ hist[1].k = "merge" /\ Apply(o, hist[1].msg, "remerge", 1)

Next ==
  /\ Len(hist) < Depth
  /\ \/ MergeStep
     \/ (Mode = "alphabet" /\ Theme \in {"carry", "share", "all"} /\ RemergeFirst)
     \/ (Mode = "random" /\ RemergeStep)
     \/ (Mode = "random" /\ ReloadStep)
     \/ (Mode = "random" /\ ObserveStep)

Spec == Init /\ [][Next]_lvars

(* ---------------------------------------------------------------------- *)
(* Export                                                                 *)
(* ---------------------------------------------------------------------- *)
Inv_Export ==
  (Export /\ Len(hist) = Depth) =>
     PrintT(<<"BEH", ToJson([init |-> [o \in Objs |-> InitShape(o)], steps |-> hist])>>)

(* ---------------------------------------------------------------------- *)
(* Theorems on the design                                                 *)
(* ---------------------------------------------------------------------- *)
(* C07: completed exactly when a roDelete was merged; the record is kept  *)
Inv_CompletedIffEnded == \A o \in Objs : Completed(ros[o]) <=> ended[o]
(* C07: completion is terminal and nothing changes afterwards             *)
Act_Terminal ==
  [][\A o \in Objs : Completed(ros[o]) => ros'[o] = ros[o]]_lvars
(* C14: envelope - the children of <mos> other than the completion record; the <roCreate> element's own          *)
(* attributes may be replaced by a roReplace (C04), everything else stays                                          *)
EnvelopeOf(ro) ==
  LET rp == RootPlain(ro)
  IN [i \in DOMAIN rp |-> IF rp[i].tag = "roCreate" THEN [rp[i] EXCEPT !.tok = None] ELSE rp[i]]
Inv_Envelope ==
  \A o \in Objs :
     /\ NRoCreate(ros[o]) = 1
     /\ MessageId(ros[o]) = MessageId(InitShape(o))
     /\ Len(MetaNodes(ros[o])) <= 1
     /\ EnvelopeOf(ros[o]) = EnvelopeOf(InitShape(o))
(* C01 premise is kept by pinned steps: story ids stay unique unless a    *)
(* message carries a duplicate                                            *)
Inv_TypeOK ==
  \A o \in Objs : \A i \in DOMAIN ros[o].kids : ros[o].kids[i].tag # "story" \/ ros[o].kids[i].id # None

=============================================================================
