------------------------------ MODULE MosTypes ------------------------------
(***************************************************************************)
(* Data shapes and sequence helpers shared by every module of the          *)
(* mosromgr specification.                                                 *)
(*                                                                         *)
(* The whole mutable state of mosromgr is one ordered XML tree.  It is     *)
(* modelled to depth 2 (children of <roCreate>, children of each <story>); *)
(* everything below is an opaque content token `tok`.                      *)
(*                                                                         *)
(*   Node == [tag, id, tok, kids]                                          *)
(*     tag  : element name                                                 *)
(*     id   : the element's key: storyID text for a story, itemID text for *)
(*            an item, mosSchema text for mosExternalMetadata, the text    *)
(*            for *ID leaves (storyID, itemID, roID, messageID), else None *)
(*     tok  : digest of the element's content that is not modelled         *)
(*            structurally (attributes, text, descendants with tails)      *)
(*     kids : modelled children (stories only; leaves have <<>>)           *)
(*                                                                         *)
(*   RO   == [root, kids]                                                  *)
(*     root : children of <mos> (mosID, messageID, roCreate placeholder,   *)
(*            mosromgrmeta ...), in document order                         *)
(*     kids : children of <roCreate>, in document order                    *)
(***************************************************************************)
EXTENDS Naturals, Sequences, FiniteSets

None == "~"

Nd(tag, id, tok, kids) == [tag |-> tag, id |-> id, tok |-> tok, kids |-> kids]
Leaf(tag, id, tok)     == Nd(tag, id, tok, <<>>)

IsStory(c) == c.tag = "story"
IsItem(c)  == c.tag = "item"

(* References as they appear in a message *)
RefId(x)  == [shape |-> "id",     id |-> x]
RefBlank  == [shape |-> "blank",  id |-> None]
RefAbsent == [shape |-> "absent", id |-> None]

(* ---------------------------------------------------------------------- *)
(* Sequence helpers                                                       *)
(* ---------------------------------------------------------------------- *)
Range(s) == { s[i] : i \in DOMAIN s }

FirstIdx(s, P(_)) ==
  IF \E i \in DOMAIN s : P(s[i])
  THEN CHOOSE i \in DOMAIN s : P(s[i]) /\ \A j \in 1..(i-1) : ~P(s[j])
  ELSE 0

(* index of the first child with this tag and id, 0 if none *)
Idx(s, tag, id) == FirstIdx(s, LAMBDA c : c.tag = tag /\ c.id = id)

(* a reference resolves only if it carries an id that is present *)
ResolveIdx(s, tag, ref) == IF ref.shape = "id" THEN Idx(s, tag, ref.id) ELSE 0

InsertAt(s, i, xs)  == SubSeq(s, 1, i-1) \o xs \o SubSeq(s, i, Len(s))
RemoveAt(s, i)      == SubSeq(s, 1, i-1) \o SubSeq(s, i+1, Len(s))
ReplaceAt(s, i, xs) == SubSeq(s, 1, i-1) \o xs \o SubSeq(s, i+1, Len(s))

Only(s, tag)         == SelectSeq(s, LAMBDA c : c.tag = tag)
Without(s, tag, ids) == SelectSeq(s, LAMBDA c : ~(c.tag = tag /\ c.id \in ids))
IdsOf(s)             == [i \in DOMAIN s |-> s[i].id]
TagIds(s, tag)       == IdsOf(Only(s, tag))
IdSet(s, tag)        == Range(TagIds(s, tag))

StoryIds(K) == TagIds(K, "story")
ItemIds(K)  == TagIds(K, "item")

(* multiset equality of two sequences *)
Count(s, x) == Cardinality({ i \in DOMAIN s : s[i] = x })
SameBag(s, t) ==
  /\ Len(s) = Len(t)
  /\ \A x \in Range(s) \cup Range(t) : Count(s, x) = Count(t, x)

NoRepeat(s) == \A i, j \in DOMAIN s : i # j => s[i] # s[j]

(* s restricted to elements satisfying P keeps order (SelectSeq wrapper)   *)
Filter(s, P(_)) == SelectSeq(s, P)

(* first occurrences only *)
RECURSIVE DedupSeq(_)
DedupSeq(s) ==
  IF s = <<>> THEN <<>>
  ELSE LET r == DedupSeq(SubSeq(s, 1, Len(s)-1))
       IN IF s[Len(s)] \in Range(r) THEN r ELSE Append(r, s[Len(s)])

(* ids (strings) of the references that carry one *)
RefIds(refs) == { refs[i].id : i \in { j \in DOMAIN refs : refs[j].shape = "id" } }

(* ---------------------------------------------------------------------- *)
(* Running order accessors                                                *)
(* ---------------------------------------------------------------------- *)
Completed(ro) == \E i \in DOMAIN ro.root : ro.root[i].tag = "mosromgrmeta"
RootPlain(ro) == SelectSeq(ro.root, LAMBDA c : c.tag # "mosromgrmeta")
MetaNodes(ro) == Only(ro.root, "mosromgrmeta")
NRoCreate(ro) == Len(Only(ro.root, "roCreate"))
MessageId(ro) == LET m == Only(ro.root, "messageID") IN IF m = <<>> THEN None ELSE m[1].id
RoId(ro)      == LET r == Only(ro.kids, "roID") IN IF r = <<>> THEN None ELSE r[1].id

StoryAt(ro, id) == ro.kids[Idx(ro.kids, "story", id)]

=============================================================================
