SPECIFICATION Spec
CONSTANTS
  InsertMode = "by_reference"
  MaxNodes = 16
INVARIANT MsgImmutable
INVARIANT NoSharedNodes
PROPERTY NoCrossEffect
CHECK_DEADLOCK FALSE
