---------------------------- MODULE MosCollection ----------------------------
(***************************************************************************)
(* MosCollection: building a collection from documents supplied in any     *)
(* order, validating it, and merging it (strict / non-strict).             *)
(*                                                                         *)
(* A supplied document is [mid, roid, kind]                                *)
(*   mid  : numeric message ID (distinct inside one collection)            *)
(*   roid : running-order ID it is addressed to                            *)
(*   kind : "roCreate" | "roDelete" | "ok" | "warn" | "warn2" | "fail" |   *)
(*          "roReplace"                                                    *)
(*          ok   - a message that merges                                   *)
(*          warn - a message that merges with a mosromgr warning           *)
(*          fail - a message whose merge raises MosMergeError              *)
(* After a roDelete has been merged every further message fails            *)
(* (MosCompletedMergeError).                                               *)
(*                                                                         *)
(* C09: merge = left fold in ascending numeric message-ID order; strict    *)
(*      stops at the first failure, non-strict skips each failure with     *)
(*      exactly one MosMergeNonStrictWarning and always reaches the end.   *)
(* C10: the result does not depend on the order of supply.                 *)
(* C11: accepted exactly when the documents describe one running order.    *)
(***************************************************************************)
EXTENDS Naturals, Sequences, FiniteSets, SequencesExt, TLC

(* "roCreateDone": a roCreate document that already carries a completion record (a merged running order written out  *)
(* and fed back in): it is the roCreate of its collection, and completed from the start                             *)
IsCreate(d) == d.kind \in {"roCreate", "roCreateDone"}
IsDelete(d) == d.kind = "roDelete"

SeqRange(s) == { s[i] : i \in DOMAIN s }
CountIf(s, P(_)) == Cardinality({ i \in DOMAIN s : P(s[i]) })

(* ascending NUMERIC message-ID order (9 < 10 < 100)                       *)
SortByMid(ds) == SortSeq(ds, LAMBDA a, b : a.mid < b.mid)

(* C11, declaratively                                                      *)
Accepts(ds, allowIncomplete) ==
  /\ ds # <<>>
  /\ \A i, j \in DOMAIN ds : ds[i].roid = ds[j].roid
  /\ CountIf(ds, IsCreate) = 1
  /\ CountIf(ds, IsDelete) <= 1
  /\ (allowIncomplete \/ CountIf(ds, IsDelete) = 1)

(* the same, staged the way an implementation checks it (first reader's    *)
(* running-order ID, then the counts)                                      *)
AcceptsStaged(ds, allowIncomplete) ==
  IF ds = <<>> THEN FALSE
  ELSE LET rid == ds[1].roid
       IN IF \E i \in DOMAIN ds : ds[i].roid # rid THEN FALSE
          ELSE IF Len(SelectSeq(ds, IsCreate)) # 1 THEN FALSE
          ELSE IF Len(SelectSeq(ds, IsDelete)) >= 2 THEN FALSE
          ELSE allowIncomplete \/ Len(SelectSeq(ds, IsDelete)) = 1

TheCreate(ds) == SelectSeq(ds, IsCreate)[1]
Readers(ds)   == SelectSeq(SortByMid(ds), LAMBDA d : ~IsCreate(d))
Mids(ds)      == [i \in DOMAIN ds |-> ds[i].mid]

Fails(d, isCompleted) == isCompleted \/ d.kind = "fail"

(* ---------------------------------------------------------------------- *)
(* What a finished run must look like, as a function of the input          *)
(* (used by the trace judge on recorded runs)                              *)
(* ---------------------------------------------------------------------- *)
RECURSIVE Fold(_, _, _, _, _, _)
(* returns [applied, failed, nwarn, raisedAt, completed]                    *)
Fold(rs, k, isStrict, comp, appl, failed) ==
  IF k > Len(rs) THEN [applied |-> appl, failed |-> failed, raisedAt |-> 0, completed |-> comp]
  ELSE IF Fails(rs[k], comp)
       THEN IF isStrict
            THEN [applied |-> appl, failed |-> Append(failed, rs[k].mid), raisedAt |-> rs[k].mid, completed |-> comp]
            ELSE Fold(rs, k+1, isStrict, comp, appl, Append(failed, rs[k].mid))
       ELSE Fold(rs, k+1, isStrict, comp \/ IsDelete(rs[k]), Append(appl, rs[k].mid), failed)

StartsCompleted(ds) == TheCreate(ds).kind = "roCreateDone"
Expected(ds, isStrict) == Fold(Readers(ds), 1, isStrict, StartsCompleted(ds), <<>>, <<>>)

=============================================================================
