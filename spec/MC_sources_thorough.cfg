SPECIFICATION Spec
CONSTANTS
  MaxKeys = 4
  MaxPage = 3
  Export = TRUE
INVARIANT Inv_Result
INVARIANT Inv_Partial
PROPERTY Live_Done
CHECK_DEADLOCK FALSE
