SPECIFICATION Spec
CONSTANTS
  Family = "text"
  MaxN = 1
  MaxLen = 4
  MaxBody = 3
  Export = TRUE
INVARIANT Inv_Sums
INVARIANT Inv_Chain
INVARIANT Inv_Explicit
INVARIANT Inv_DurPrecedence
INVARIANT Inv_Script
INVARIANT Inv_Concat
CHECK_DEADLOCK FALSE
