SPECIFICATION Spec
CONSTANTS
  Family = "text"
  MaxN = 1
  MaxLen = 5
  MaxBody = 4
  Export = TRUE
INVARIANT Inv_Sums
INVARIANT Inv_Chain
INVARIANT Inv_Explicit
INVARIANT Inv_DurPrecedence
INVARIANT Inv_Script
INVARIANT Inv_Concat
CHECK_DEADLOCK FALSE
