------------------------------ MODULE MosJudge ------------------------------
(***************************************************************************)
(* The conformance relation between one observed step of the               *)
(* implementation                                                          *)
(*     ev == [pre, msg, post, status, warns, ser_eq, completed_acc]        *)
(* and the specification, split into one clause per listed property        *)
(* (DESIGN.md section 4.4/4.5).  Every clause compares through the "lens"  *)
(* the property states and nothing more, so a change that breaks one       *)
(* property does not make the clauses of another one fail.                 *)
(*                                                                         *)
(* The same clauses are checked by TLC on the specification itself         *)
(* (MC_*.tla: every result in Merge(ro, m) satisfies all of them), and on  *)
(* every step recorded from the implementation (Trace_Merge.tla).          *)
(***************************************************************************)
EXTENDS MosMerge, TLC

StatusOk(ev) == ev.status = "ok"
(* "unclassified": MosFile.from_string refused the message with one of the library's own exceptions (C08's business) *)
Crashed(ev)  == ev.status \notin {"ok", "merge_error", "completed_error", "unclassified"}

(* A running order that holds a story whose storyID is blank, addressed   *)
(* by a message with a blank story reference: whether the blank reference *)
(* "names" that story is not settled by any property, so only failure     *)
(* atomicity, containment, completion and the envelope are judged there.  *)
HasBlankStoryRef(m) ==
  \/ m.story.shape = "blank"
  \/ (m.cls \in StoryClasses /\ \E i \in DOMAIN m.ids : m.ids[i].shape = "blank")
(* C01-C06 presuppose unique story IDs (and unique item IDs inside the    *)
(* addressed story): once a message has carried a duplicate in, "the      *)
(* story S1" is ambiguous and only atomicity / containment / completion / *)
(* envelope / multiset preservation are judged                            *)
PreUnique(ev) ==
  /\ NoRepeat(StoryIds(ev.pre.kids))
  /\ (ev.msg.cls \in ItemClasses /\ ResolveIdx(ev.pre.kids, "story", ev.msg.story) # 0)
        => NoRepeat(ItemIds(ev.pre.kids[ResolveIdx(ev.pre.kids, "story", ev.msg.story)].kids))

AmbiguousBlank(ev) ==
  \/ ~PreUnique(ev)
  \/ /\ \E i \in DOMAIN ev.pre.kids : IsStory(ev.pre.kids[i]) /\ ev.pre.kids[i].id = None
     /\ HasBlankStoryRef(ev.msg)

(* ---------------------------------------------------------------------- *)
(* C01 / C02: ID sequence of the stories / of the addressed story's items *)
(* ---------------------------------------------------------------------- *)
AddrIdx(ro, m)  == ResolveIdx(ro.kids, "story", m.story)
AddrKids(ro, m) == LET i == AddrIdx(ro, m) IN IF i = 0 THEN <<>> ELSE ro.kids[i].kids

SeqMatches(R, seqPost, seqPre, Proj(_)) ==
  \E r \in R : IF r.loose THEN SameBag(seqPost, seqPre) ELSE seqPost = Proj(r.post)

StorySeqOk(ev, R) ==
  \/ ev.msg.cls \notin StoryClasses
  \/ ~Shaped(ev.msg) \/ AmbiguousBlank(ev)
  \/ HasMiss(R)                         \* C01 speaks about messages whose references resolve
  \/ SeqMatches(R, StoryIds(ev.post.kids), StoryIds(ev.pre.kids), LAMBDA p : StoryIds(p.kids))

StoryPermOk(ev) ==                      \* moves and swaps never add or lose a story, whatever the input
  ev.msg.cls \in MoveSwapStory => SameBag(StoryIds(ev.post.kids), StoryIds(ev.pre.kids))

ItemSeqOk(ev, R) ==
  \/ ev.msg.cls \notin ItemClasses
  \/ ~Shaped(ev.msg) \/ AmbiguousBlank(ev)
  \/ HasMiss(R)
  \/ AddrIdx(ev.pre, ev.msg) = 0
  \/ SeqMatches(R, ItemIds(AddrKids(ev.post, ev.msg)), ItemIds(AddrKids(ev.pre, ev.msg)),
                LAMBDA p : ItemIds(AddrKids(p, ev.msg)))

ItemPermOk(ev) ==
  (ev.msg.cls \in MoveSwapItem /\ AddrIdx(ev.pre, ev.msg) # 0)
     => SameBag(ItemIds(AddrKids(ev.post, ev.msg)), ItemIds(AddrKids(ev.pre, ev.msg)))

(* ---------------------------------------------------------------------- *)
(* C03: everything the message does not operate on keeps content & order  *)
(* ---------------------------------------------------------------------- *)
(* ids of the elements the message operates on (deleted / replaced /      *)
(* moved / swapped / re-sent).  A blank or unknown reference names        *)
(* nothing.  Targets that only give a position are NOT operated on.       *)
OperatedIds(m) ==
  CASE m.cls \in {"StorySend", "StoryReplace", "EAStoryReplace"} -> RefIds(<<m.story>>)
    [] m.cls \in {"ItemReplace", "EAItemReplace"}                  -> RefIds(<<m.item>>)
    [] m.cls = "StoryMove" -> IF m.ids = <<>> THEN {} ELSE RefIds(<<m.ids[1]>>)
    [] m.cls = "ItemMoveMultiple" ->
         IF m.ids = <<>> THEN {} ELSE RefIds(SubSeq(m.ids, 1, Len(m.ids) - 1))
    [] m.cls \in {"StoryDelete", "EAStoryDelete", "EAStoryMove", "EAStorySwap",
                  "ItemDelete", "EAItemDelete", "EAItemMove", "EAItemSwap"} -> RefIds(m.ids)
    [] OTHER -> {}

CarriedIds(m) == IF m.cls \in {"MetaDataReplace", "RunningOrderReplace", "RunningOrderEnd"}
                 THEN {} ELSE Range(IdsOf(m.carried))

(* ids that are new to the container (not duplicates of something there)  *)
NewIds(preSeq, tag, m) == CarriedIds(m) \ IdSet(preSeq, tag)

LensSeq(s, tag, m, preSeq) == Without(s, tag, OperatedIds(m) \cup NewIds(preSeq, tag, m))

MdKeys(m) == { MdKey(m.carried[i]) : i \in DOMAIN m.carried }

LensKids(K, m, preK) ==
  CASE m.cls \in StoryClasses -> LensSeq(K, "story", m, preK)
    [] m.cls \in ItemClasses  ->
         LET si  == ResolveIdx(K, "story", m.story)
             psi == ResolveIdx(preK, "story", m.story)
         IN IF si = 0 \/ psi = 0 THEN K
            ELSE [K EXCEPT ![si].kids = LensSeq(K[si].kids, "item", m, preK[psi].kids)]
    [] m.cls = "MetaDataReplace" ->
         SelectSeq(K, LAMBDA c : IsStory(c) \/ MdKey(c) \notin MdKeys(m))
    [] m.cls = "RunningOrderReplace" -> <<>>
    [] OTHER -> K

(* duplicate ids make the un-named lens ambiguous for classes that may     *)
(* insert "anyway"; those inputs are outside C03's reach                   *)
DupAmbiguous(ev) ==
  /\ ev.msg.cls \in {"StoryAppend", "StoryReplace", "EAStoryReplace",
                     "ItemInsert", "EAItemInsert", "ItemReplace", "EAItemReplace"}
  /\ LET tag == IF ev.msg.cls \in StoryClasses THEN "story" ELSE "item"
         seq == IF ev.msg.cls \in StoryClasses THEN ev.pre.kids ELSE AddrKids(ev.pre, ev.msg)
     IN \/ ~NoRepeat(IdsOf(ev.msg.carried))
        \/ (CarriedIds(ev.msg) \cap IdSet(seq, tag)) \ OperatedIds(ev.msg) # {}

(* a roReplace replaces the <roCreate> element itself (C04 says what it    *)
(* becomes); every other root child is un-named                           *)
MaskRoCreate(ev, root) ==
  IF ev.msg.cls # "RunningOrderReplace" THEN root
  ELSE [i \in DOMAIN root |-> IF root[i].tag = "roCreate" THEN [root[i] EXCEPT !.tok = None] ELSE root[i]]

UnnamedOk(ev) ==
  \/ DupAmbiguous(ev) \/ AmbiguousBlank(ev)
  \/ /\ LensKids(ev.post.kids, ev.msg, ev.pre.kids) = LensKids(ev.pre.kids, ev.msg, ev.pre.kids)
     /\ MaskRoCreate(ev, RootPlain(ev.post)) = MaskRoCreate(ev, RootPlain(ev.pre))
     /\ ev.msg.cls \notin {"RunningOrderEnd", "RunningOrderReplace"} => ev.post.root = ev.pre.root

(* ---------------------------------------------------------------------- *)
(* C04: carried content arrives intact                                    *)
(* ---------------------------------------------------------------------- *)
Arrives(c, seq) == \E i \in DOMAIN seq : seq[i] = c

CarriedOk(ev, R) ==
  \/ ~StatusOk(ev) \/ ~Shaped(ev.msg) \/ HasMiss(R) \/ AmbiguousBlank(ev)
  \/ CASE ev.msg.cls = "StorySend" -> Arrives(Flatten(ev.msg), ev.post.kids)
       [] ev.msg.cls \in {"StoryAppend", "StoryInsert", "EAStoryInsert",
                          "StoryReplace", "EAStoryReplace"} ->
            \A i \in DOMAIN ev.msg.carried :
               LET c == ev.msg.carried[i]
               IN \/ c.id \in (IdSet(ev.pre.kids, "story") \ OperatedIds(ev.msg))   \* duplicate: may be skipped
                  \/ \E j \in 1..(i-1) : ev.msg.carried[j].id = c.id
                  \/ Arrives(c, ev.post.kids)
       [] ev.msg.cls \in {"ItemInsert", "EAItemInsert", "ItemReplace", "EAItemReplace"} ->
            \A i \in DOMAIN ev.msg.carried : Arrives(ev.msg.carried[i], AddrKids(ev.post, ev.msg))
       [] ev.msg.cls = "MetaDataReplace" ->
            \A i \in DOMAIN ev.msg.carried :
               \/ \E j \in (i+1)..Len(ev.msg.carried) : MdKey(ev.msg.carried[j]) = MdKey(ev.msg.carried[i])
               \/ Arrives(ev.msg.carried[i], ev.post.kids)
       [] ev.msg.cls = "RunningOrderReplace" ->
            /\ ev.post.kids = ev.msg.carried
            /\ \A i \in DOMAIN ev.post.root : ev.post.root[i].tag = "roCreate" => ev.post.root[i].tok = ev.msg.stok
       [] OTHER -> TRUE

(* ---------------------------------------------------------------------- *)
(* C05: a merge that raises leaves the running order as it was            *)
(* ---------------------------------------------------------------------- *)
FailAtomicOk(ev) == ~StatusOk(ev) => (ev.post = ev.pre /\ ev.ser_eq)

(* ---------------------------------------------------------------------- *)
(* C06: nothing named is skipped silently                                 *)
(* ---------------------------------------------------------------------- *)
(* position-insensitive summary of what a result did to the container     *)
Container(ro, m) ==
  CASE m.cls \in StoryClasses -> StoryIds(ro.kids)
    [] m.cls \in ItemClasses  -> ItemIds(AddrKids(ro, m))
    [] OTHER -> <<>>

(* the next element after x that is not itself one of the moved ones      *)
Anchor(seq, x, moved) ==
  LET i == FirstIdx(seq, LAMBDA y : y = x)
      after == SelectSeq(SubSeq(seq, i+1, Len(seq)), LAMBDA y : y \notin moved)
  IN IF i = 0 THEN "?" ELSE IF after = <<>> THEN "END" ELSE after[1]

MovedOk(ev, r) ==        \* every listed element that had to move did move
  LET moved == OperatedIds(ev.msg)
      pre   == Container(ev.pre, ev.msg)
      exp   == Container(r.post, ev.msg)
      obs   == Container(ev.post, ev.msg)
  IN ev.msg.cls \in (MoveSwapStory \cup MoveSwapItem) =>
       \A x \in moved :
          (x \in Range(pre) /\ Anchor(exp, x, moved) # Anchor(pre, x, moved))
             => Anchor(obs, x, moved) # Anchor(pre, x, moved)

(* something the message names cannot be found / is a duplicate: every     *)
(* allowed result reports it (a warning, or MosMergeError)                 *)
MustReport(R) == \A r \in R : r.status # "ok" \/ r.warns # <<>>
ReportedOk(ev, R) ==
  \/ (~StatusOk(ev) /\ ~Crashed(ev)) \/ ~Shaped(ev.msg) \/ AmbiguousBlank(ev)
  \/ (Crashed(ev) /\ ~MustReport(R))          \* a foreign exception where nothing had to be reported is C12's business
  \/ ev.msg.cls \notin (StoryClasses \cup ItemClasses)
  \/ /\ ~Crashed(ev)                          \* ... and where something had to be, it is neither warning nor MosMergeError
     /\ \E r \in R :
       \/ r.loose
       \/ /\ r.status = "ok"
          /\ SameBag(ev.warns, r.warns)
          /\ SameBag(Container(ev.post, ev.msg), Container(r.post, ev.msg))
          /\ MovedOk(ev, r)

(* C06 where the container holds an ID more than once (outside PreUnique): *)
(* WHICH of the equal-named elements a reference means is left open, HOW  *)
(* MANY are acted upon is not - the k-th mention of an id removes one     *)
(* element of that id while there is one left, and is reported (one       *)
(* warning of the documented category) when there is none; elements of     *)
(* other ids are neither removed nor added.                                *)
DeleteClasses == {"StoryDelete", "EAStoryDelete", "ItemDelete", "EAItemDelete"}
CountOf(seq, x) == Cardinality({ i \in DOMAIN seq : seq[i] = x })
MissAt(m, pre, i) ==
  \/ m.ids[i].shape # "id"
  \/ Cardinality({ j \in 1..i : m.ids[j] = m.ids[i] }) > CountOf(pre, m.ids[i].id)
ActedUponOk(ev) ==
  \/ ev.msg.cls \notin DeleteClasses \/ ~StatusOk(ev) \/ ~Shaped(ev.msg) \/ PreUnique(ev)
  \/ (ev.msg.cls \in ItemClasses /\ (AddrIdx(ev.pre, ev.msg) = 0 \/ ~NoRepeat(StoryIds(ev.pre.kids))))
  \/ LET m    == ev.msg
         pre  == Container(ev.pre, m)
         post == Container(ev.post, m)
         X    == RefIds(m.ids)
         nMiss == Cardinality({ i \in DOMAIN m.ids : MissAt(m, pre, i) })
         cat  == IF m.cls \in StoryClasses THEN SNF ELSE INF
         mentions(x) == Cardinality({ i \in DOMAIN m.ids : m.ids[i].shape = "id" /\ m.ids[i].id = x })
     IN /\ \A x \in X : CountOf(post, x) = (IF CountOf(pre, x) > mentions(x) THEN CountOf(pre, x) - mentions(x) ELSE 0)
        /\ \A y \in (Range(pre) \cup Range(post)) \ X : CountOf(post, y) = CountOf(pre, y)
        /\ Len(ev.warns) = nMiss
        /\ \A k \in DOMAIN ev.warns : ev.warns[k] = cat

(* ---------------------------------------------------------------------- *)
(* C07 (single step part): completion                                     *)
(* ---------------------------------------------------------------------- *)
CompletionOk(ev) ==
  /\ ev.completed_acc = Completed(ev.post)        \* what ro.completed reports is what the document records
  /\ Completed(ev.pre) => (ev.status = "completed_error" /\ ev.post = ev.pre /\ ev.ser_eq)
  /\ (~Completed(ev.pre) /\ ev.msg.cls = "RunningOrderEnd") =>
        /\ ev.status = "ok"
        /\ ev.post.kids = ev.pre.kids
        /\ Completed(ev.post)
        /\ MetaNodes(ev.post) = <<Nd("mosromgrmeta", None, None, ev.msg.carried)>>
  /\ (~Completed(ev.pre) /\ ev.msg.cls # "RunningOrderEnd") =>
        (~Completed(ev.post) /\ ev.status # "completed_error")

(* ---------------------------------------------------------------------- *)
(* C12: only the library's own exceptions                                 *)
(* ---------------------------------------------------------------------- *)
ContainedOk(ev) == Shaped(ev.msg) => ~Crashed(ev)

(* ---------------------------------------------------------------------- *)
(* C14 (single step part): the envelope                                   *)
(* ---------------------------------------------------------------------- *)
EnvelopeOk(ev) ==
  /\ NRoCreate(ev.post) = 1
  /\ MessageId(ev.post) = MessageId(ev.pre)
  /\ Len(MetaNodes(ev.post)) <= 1
  /\ ev.msg.cls # "RunningOrderReplace" => RoId(ev.post) = RoId(ev.pre)

(* ---------------------------------------------------------------------- *)
(* The full step: some allowed result explains the observation exactly    *)
(* (used for documentation / spec self-check, not attributed to a         *)
(* property)                                                              *)
(* ---------------------------------------------------------------------- *)
Clauses == <<"story_seq", "story_perm", "item_seq", "item_perm", "unnamed", "carried",
             "fail_atomic", "reported", "acted_upon", "completion", "contained", "envelope">>

Verdict(ev) ==
  LET R == Merge(ev.pre, ev.msg)
  IN [ story_seq   |-> StorySeqOk(ev, R),
       story_perm  |-> StoryPermOk(ev),
       item_seq    |-> ItemSeqOk(ev, R),
       item_perm   |-> ItemPermOk(ev),
       unnamed     |-> UnnamedOk(ev),
       carried     |-> CarriedOk(ev, R),
       fail_atomic |-> FailAtomicOk(ev),
       reported    |-> ReportedOk(ev, R),
       acted_upon  |-> ActedUponOk(ev),
       completion  |-> CompletionOk(ev),
       contained   |-> ContainedOk(ev),
       envelope    |-> EnvelopeOk(ev) ]

Failing(ev) == LET v == Verdict(ev) IN SelectSeq(Clauses, LAMBDA c : ~v[c])


(* ---------------------------------------------------------------------- *)
(* Signature: the abstract shape of an input, used to tell one known      *)
(* finding from a different violation of the same property                *)
(* ---------------------------------------------------------------------- *)
TargetRef(m) ==     \* the reference that gives the position / the replaced element
  CASE m.cls = "StoryMove" -> IF Len(m.ids) >= 2 THEN m.ids[2] ELSE RefAbsent
    [] m.cls = "ItemMoveMultiple" -> IF m.ids = <<>> THEN RefAbsent ELSE m.ids[Len(m.ids)]
    [] m.cls \in StoryClasses -> m.story
    [] m.cls \in ItemClasses -> m.item
    [] OTHER -> RefAbsent

SourceRefs(m) ==
  CASE m.cls = "StoryMove" -> IF m.ids = <<>> THEN <<>> ELSE <<m.ids[1]>>
    [] m.cls = "ItemMoveMultiple" -> IF m.ids = <<>> THEN <<>> ELSE SubSeq(m.ids, 1, Len(m.ids)-1)
    [] OTHER -> m.ids

RefKind(seq, tag, ref) ==
  IF ref.shape = "id" THEN (IF Idx(seq, tag, ref.id) # 0 THEN "k" ELSE "u")
  ELSE IF ref.shape = "blank" THEN "b" ELSE "a"

RECURSIVE JoinKinds(_, _, _, _)
JoinKinds(seq, tag, refs, seen) ==
  IF refs = <<>> THEN ""
  ELSE LET r == Head(refs)
           k == IF r.shape = "id" /\ r.id \in seen THEN "r" ELSE RefKind(seq, tag, r)
       IN k \o JoinKinds(seq, tag, Tail(refs), IF r.shape = "id" THEN seen \cup {r.id} ELSE seen)

Sig(ev) ==
  LET m    == ev.msg
      lvl  == IF m.cls \in ItemClasses THEN "item" ELSE "story"
      seq  == IF m.cls \in ItemClasses THEN AddrKids(ev.pre, m) ELSE ev.pre.kids
      sk   == IF m.cls \in ItemClasses THEN RefKind(ev.pre.kids, "story", m.story) ELSE "-"
      t    == TargetRef(m)
      tk   == RefKind(seq, lvl, t)
      srcs == SourceRefs(m)
      ti   == ResolveIdx(seq, lvl, t)
      firstSrc == FirstIdx(srcs, LAMBDA r : ResolveIdx(seq, lvl, r) # 0)
      si   == IF firstSrc = 0 THEN 0 ELSE ResolveIdx(seq, lvl, srcs[firstSrc])
      dir  == IF m.cls \notin (MoveSwapStory \cup MoveSwapItem) \/ si = 0 THEN "-"
              ELSE IF m.cls \in {"EAStorySwap", "EAItemSwap"}
                   THEN (LET j == IF Len(srcs) >= 2 THEN ResolveIdx(seq, lvl, srcs[2]) ELSE 0
                         IN IF j = 0 THEN "-" ELSE IF si < j THEN "fwd" ELSE IF si > j THEN "bwd" ELSE "self")
              ELSE IF ti = 0 THEN "end" ELSE IF si < ti THEN "fwd" ELSE IF si > ti THEN "bwd" ELSE "self"
      dup  == IF (Range(IdsOf(m.carried)) \cap IdSet(seq, lvl)) # {} /\ m.cls \notin OtherClasses
              THEN "d" ELSE ""
  IN m.cls \o "/s=" \o sk \o "/t=" \o tk \o "/ids=" \o JoinKinds(seq, lvl, srcs, {})
       \o "/dir=" \o dir \o "/c=" \o ToString(Len(m.carried)) \o dup \o "/" \o ev.status

(* an event built from a specification result: what a conforming          *)
(* implementation would have been observed to do                          *)
SpecEvent(ro, m, r) ==
  [pre |-> ro, msg |-> m, post |-> r.post, status |-> r.status, warns |-> r.warns, ser_eq |-> TRUE,
   completed_acc |-> Completed(r.post)]

=============================================================================
