----------------------------- MODULE Trace_Coll -----------------------------
(***************************************************************************)
(* Judges recorded MosCollection runs (code -> spec).  TRACE_FILE: JSON    *)
(* array of                                                                *)
(*  [id, docs, allow, strict, via, flags, accepted, ro_mid, reader_mids,   *)
(*   merged, steps, raised, nwarn, fold_eq, completed, reader_ok]          *)
(*  docs        : supplied documents [mid, roid, kind], in supply order    *)
(*  accepted    : "ok" | "InvalidMosCollection" | "crash:<Type>"           *)
(*  merged      : TRUE when mc.merge() was run                             *)
(*  steps       : the `ro += msg` calls the merge performed, [mid, status] *)
(*  raised      : "~" or the exception class that left mc.merge()          *)
(*  nwarn       : number of MosMergeNonStrictWarning recorded              *)
(*  fold_eq     : str(mc) = str of a hand fold over freshly parsed msgs    *)
(*  sorted_mids : message ids of sorted(MosFile objects of the documents)  *)
(*  reader_ok   : every MosReader reports the id / roID / class of the     *)
(*                object it restores and restores a fresh equal object     *)
(***************************************************************************)
EXTENDS MosCollection, TLCExt, Json, IOUtils

Events == JsonDeserialize(IOEnv.TRACE_FILE)
VARIABLE l

IsErr(st) == st \in {"merge_error", "completed_error"}

(* the message IDs a run must attempt, in order                           *)
Attempted(ds, isStrict) ==
  LET rs == Mids(Readers(ds))
      e  == Expected(ds, isStrict)
  IN IF e.raisedAt = 0 THEN rs
     ELSE SubSeq(rs, 1, CHOOSE k \in DOMAIN rs : rs[k] = e.raisedAt)

Failing(ev) ==
  LET acc == Accepts(ev.docs, ev.allow)
      e   == Expected(ev.docs, ev.strict)
      okA == ev.accepted = "ok"
  IN (IF ev.accepted = (IF acc THEN "ok" ELSE "InvalidMosCollection")
         /\ (okA /\ acc => ev.ro_mid = TheCreate(ev.docs).mid)
      THEN <<>> ELSE <<"coll_accept">>)
     \o (IF /\ (okA /\ acc) => ev.reader_mids = Mids(Readers(ev.docs))
            /\ ev.sorted_mids = Mids(SortByMid(ev.docs))       \* sorted(MosFile objects): same numeric order
         THEN <<>> ELSE <<"coll_order">>)
     \* C11: after acceptance the readers are exactly the documents other than the roCreate (in whatever order)
     \o (IF (okA /\ acc) => /\ Len(ev.reader_mids) = Len(Readers(ev.docs))
                            /\ SeqRange(ev.reader_mids) = SeqRange(Mids(Readers(ev.docs)))
         THEN <<>> ELSE <<"coll_members">>)
     \o (IF (okA /\ acc /\ ev.merged) =>
              /\ [k \in DOMAIN ev.steps |-> ev.steps[k].mid] = Attempted(ev.docs, ev.strict)
              /\ \A k \in DOMAIN ev.steps :
                    IsErr(ev.steps[k].status) <=> (ev.steps[k].mid \in SeqRange(e.failed))
              /\ (ev.raised = "~") <=> (e.raisedAt = 0)
              /\ ev.nwarn = (IF ev.strict THEN 0 ELSE Len(e.failed))
         THEN <<>> ELSE <<"coll_steps">>)
     \* C09: a collection the specification accepts is built (or refused by the library), never left without a
     \* result by a foreign exception, and its merge is the hand fold
     \o (IF /\ acc => ev.accepted \in {"ok", "InvalidMosCollection"}
            /\ (okA /\ acc /\ ev.merged) => ev.fold_eq
         THEN <<>> ELSE <<"coll_fold">>)
     \o (IF (okA /\ acc /\ ev.merged) => ev.completed = e.completed THEN <<>> ELSE <<"coll_completed">>)
     \o (IF ev.accepted \in {"ok", "InvalidMosCollection"}
            /\ ev.raised \in {"~", "MosMergeError", "MosCompletedMergeError"}
            /\ (~ev.strict => ev.raised = "~")
            /\ \A k \in DOMAIN ev.steps : ev.steps[k].status \in {"ok", "merge_error", "completed_error"}
         THEN <<>> ELSE <<"coll_contained">>)
     \o (IF ev.reader_ok THEN <<>> ELSE <<"coll_reader">>)

RECURSIVE KindsStr(_)
KindsStr(ds) == IF ds = <<>> THEN "" ELSE ds[1].kind \o (IF ds[1].roid = "RO1" THEN "" ELSE "@other")
                                            \o (IF Len(ds) > 1 THEN "," ELSE "") \o KindsStr(Tail(ds))
CollSig(ev) == "[" \o (IF Len(ev.docs) > 9 THEN "bulk" \o ToString(Len(ev.docs)) ELSE KindsStr(SortByMid(ev.docs))) \o "]/allow=" \o ToString(ev.allow)
               \o "/strict=" \o ToString(ev.strict) \o "/" \o ev.flags

TInit == l = 1
TNext ==
  /\ l <= Len(Events)
  /\ LET ev == Events[l]
         f == Failing(ev)
     IN f # <<>> => PrintT(<<"BAD", ToJson([at |-> l, id |-> ev.id, k |-> "coll", clauses |-> f,
                                            sig |-> CollSig(ev)])>>)
  /\ l' = l + 1
  /\ (l = Len(Events) => PrintT(<<"JUDGED", ToString(Len(Events))>>))
TSpec == TInit /\ [][TNext]_l
AllConsumed == TLCGet("stats").diameter - 1 = Len(Events)
=============================================================================
