SPECIFICATION Spec
CONSTANTS
  MaxFiles = 2
  MaxDocs = 3
  Export = TRUE
INVARIANT Inv_InOrder
PROPERTY Live_AllProcessed
CHECK_DEADLOCK FALSE
