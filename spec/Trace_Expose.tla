---------------------------- MODULE Trace_Expose ----------------------------
(* Judges recorded accessor / inspect() observations of message objects    *)
(* (code -> spec).  TRACE_FILE: JSON array of [id, msg, obs].              *)
EXTENDS MosExpose, TLCExt, Json, IOUtils

Events == JsonDeserialize(IOEnv.TRACE_FILE)
VARIABLE l

RECURSIVE Kinds(_)
Kinds(refs) == IF refs = <<>> THEN "" ELSE (IF Head(refs).shape = "id" THEN "k" ELSE IF Head(refs).shape = "blank" THEN "b" ELSE "a") \o Kinds(Tail(refs))
ExposeSig(m) == m.cls \o "/s=" \o Kinds(<<m.story>>) \o "/t=" \o Kinds(<<TargetRef(m)>>) \o "/ids=" \o Kinds(SourceRefs(m))
                \o "/c=" \o ToString(Len(m.carried))

TInit == l = 1
TNext ==
  /\ l <= Len(Events)
  /\ LET ev == Events[l]
         f == ExposeFailing(ev.msg, ev.obs)
     IN f # <<>> => PrintT(<<"BAD", ToJson([at |-> l, id |-> ev.id, k |-> "expose", clauses |-> f,
                                            sig |-> ExposeSig(ev.msg) \o "/" \o ev.obs.style])>>)
  /\ l' = l + 1
  /\ (l = Len(Events) => PrintT(<<"JUDGED", ToString(Len(Events))>>))
TSpec == TInit /\ [][TNext]_l
AllConsumed == TLCGet("stats").diameter - 1 = Len(Events)
=============================================================================
