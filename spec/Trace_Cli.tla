------------------------------ MODULE Trace_Cli ------------------------------
(* Judges recorded command-line runs.  TRACE_FILE: JSON array of           *)
(*  detect/inspect: [id, cmd, files, seen : Seq([out, err]), order_ok, rc, aborted] *)
(*  merge         : [id, cmd = "merge", c : [docs, allow, nonstrict, outfile], rc,  *)
(*                   wrote, same_as_lib, stderr_nonempty]                  *)
EXTENDS MosCli, TLC, TLCExt, Json, IOUtils

Events == JsonDeserialize(IOEnv.TRACE_FILE)
VARIABLE l

UsageFailing(ev) ==
  IF ev.rc = 2 /\ ev.stderr_nonempty /\ \A i \in DOMAIN ev.seen : ev.seen[i].out = <<>> /\ ev.seen[i].err = <<>>
  THEN <<>> ELSE <<"cli_usage">>

LoopFailing(ev) ==
  IF UsageError(ev.cmd, ev.mode) THEN UsageFailing(ev) ELSE
  (IF Len(ev.seen) = Len(ev.files) /\ \A i \in DOMAIN ev.files : FileOk(ev.files[i], ev.seen[i])
   THEN <<>> ELSE <<"cli_marks">>)
  \o (IF \A i \in DOMAIN ev.files : i \in DOMAIN ev.seen => CompletedLabelOk(ev.files[i], ev.seen[i])
      THEN <<>> ELSE <<"cli_completed">>)
  \o (IF ev.order_ok THEN <<>> ELSE <<"cli_order">>)
  \o (IF ev.cmd = "inspect" /\ ev.aborted THEN <<"cli_inspect_aborted">> ELSE <<>>)
  \o (IF (\A i \in DOMAIN ev.files : IsValid(ev.files[i])) => ev.rc = 0 THEN <<>> ELSE <<"cli_rc">>)

MergeFailing(ev) ==
  LET want == MergeRcMode(ev.c.docs, ev.c.allow, ev.c.nonstrict, ev.c.mode)
  IN (IF ev.rc = want THEN <<>> ELSE <<"cli_merge_rc">>)
     \o (IF want = 0 => (ev.wrote /\ ev.same_as_lib) THEN <<>> ELSE <<"cli_merge_output">>)
     \o (IF want = 2 => (ev.stderr_nonempty /\ ~ev.wrote) THEN <<>> ELSE <<"cli_merge_error">>)

RECURSIVE FilesStr(_)
FilesStr(fs) == IF fs = <<>> THEN "" ELSE (IF Head(fs).kind = "valid" THEN Marker(Head(fs)) ELSE Head(fs).kind)
                                       \o (IF Len(fs) > 1 THEN "," ELSE "") \o FilesStr(Tail(fs))
RECURSIVE DocsStr(_)
DocsStr(ds) == IF ds = <<>> THEN "" ELSE Head(ds).kind \o (IF Head(ds).roid = "RO1" THEN "" ELSE "@other")
                                   \o (IF Len(ds) > 1 THEN "," ELSE "") \o DocsStr(Tail(ds))
Sig(ev) == IF ev.cmd = "merge"
           THEN "merge[" \o DocsStr(ev.c.docs) \o "]/i=" \o ToString(ev.c.allow) \o "/n=" \o ToString(ev.c.nonstrict)
                \o "/o=" \o ToString(ev.c.outfile) \o "/" \o ev.c.mode
           ELSE ev.cmd \o "[" \o FilesStr(ev.files) \o "]/" \o ev.mode

TInit == l = 1
TNext ==
  /\ l <= Len(Events)
  /\ LET ev == Events[l]
         f == IF ev.cmd = "merge" THEN MergeFailing(ev) ELSE LoopFailing(ev)
     IN f # <<>> => PrintT(<<"BAD", ToJson([at |-> l, id |-> ev.id, k |-> "cli", clauses |-> f, sig |-> Sig(ev)])>>)
  /\ l' = l + 1
  /\ (l = Len(Events) => PrintT(<<"JUDGED", ToString(Len(Events))>>))
TSpec == TInit /\ [][TNext]_l
AllConsumed == TLCGet("stats").diameter - 1 = Len(Events)
=============================================================================
