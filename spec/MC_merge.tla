------------------------------ MODULE MC_merge ------------------------------
(***************************************************************************)
(* Bounded, exhaustive one-step model of `ro += msg`.                      *)
(*                                                                         *)
(* Init    = every abstract running order inside the bound (shape keys).   *)
(* Next    = one merge step with every message inside the bound, for the   *)
(*           classes selected by the configuration.  The one-step bound    *)
(*           is a guard inside Next (not a CONSTRAINT), so every           *)
(*           (pre, message, allowed result) triple is a distinct, checked  *)
(*           TLC state: TLC's distinct states ARE the transition table.    *)
(* Export  = one line per initial state ("PRE") and one per (pre, message) *)
(*           ("CASE"), replayed into the real code by harness/replay.py.   *)
(*                                                                         *)
(* IDs: stories S1..Sn in canonical order (messages range over all ID      *)
(* choices, so every relative position of sources and target occurs);      *)
(* N1,N2 fresh; SU unknown.  Items I1..In, J1,J2 fresh, IU unknown.        *)
(***************************************************************************)
EXTENDS MosGen, Json

CONSTANTS
  Classes,      \* message classes to enumerate
  MaxStories,   \* stories in the running order: 0..MaxStories
  Layouts,      \* subset of {"plain","between","trailing","both"}
  MaxItems,     \* items in the addressed story (item-level shapes): 0..MaxItems
  ILayouts,     \* subset of {"bare","mixed"}: paragraphs between items or not
  Export        \* TRUE: print PRE/CASE lines

VARIABLES ro, last
vars == <<ro, last>>

StoryKeys == { <<"S", n, lay>> : n \in 0..MaxStories, lay \in Layouts }
ItemKeys  == { <<"I", n, il>>  : n \in 0..MaxItems,   il \in ILayouts }
MetaKeys  == { <<"M", 0, v>>   : v \in {"none", "extA", "extAB", "extAA"} }

Keys == (IF Classes \cap StoryClasses # {} THEN StoryKeys ELSE {})
        \cup (IF Classes \cap ItemClasses # {} THEN ItemKeys ELSE {})
        \cup (IF Classes \cap OtherClasses # {} THEN MetaKeys \cup { <<"S", 2, "plain">> } ELSE {})

MsgsFor(cls, key, K) ==
  CASE cls \in StoryClasses /\ key[1] = "S" -> StoryMsgs(cls, K)
    [] cls \in ItemClasses  /\ key[1] = "I" -> ItemMsgs(cls, K, "S1")
    [] cls \in OtherClasses /\ key[1] \in {"M"} -> OtherMsgs(cls, K)
    [] cls \in OtherClasses /\ key = <<"S", 2, "plain">> /\ cls # "MetaDataReplace" -> OtherMsgs(cls, K)
    [] OTHER -> {}

(* ---------------------------------------------------------------------- *)
(* The one-step state machine                                             *)
(* ---------------------------------------------------------------------- *)
NoMsg == Msg("init", RefAbsent, RefAbsent, <<>>, <<>>)

Init ==
  \E key \in Keys :
     /\ ro = ShapeOf(key)
     /\ last = [key |-> key, msg |-> NoMsg, status |-> "init", warns |-> <<>>, loose |-> FALSE]
     /\ (Export => PrintT(<<"PRE", ToJson([key |-> key, ro |-> ShapeOf(key)])>>))

Step(cls) ==
  /\ last.status = "init"
  /\ \E m \in MsgsFor(cls, last.key, ro.kids) :
       /\ (Export => PrintT(<<"CASE", ToJson([key |-> last.key, msg |-> m])>>))
       /\ \E r \in Merge(ro, m) :
            /\ ro' = r.post
            /\ last' = [key |-> last.key, msg |-> m, status |-> r.status,
                        warns |-> r.warns, loose |-> r.loose]

(* one named action per message class, so that -coverage reports each     *)
StorySend           == "StorySend" \in Classes /\ Step("StorySend")
StoryAppend         == "StoryAppend" \in Classes /\ Step("StoryAppend")
StoryDelete         == "StoryDelete" \in Classes /\ Step("StoryDelete")
StoryInsert         == "StoryInsert" \in Classes /\ Step("StoryInsert")
StoryMove           == "StoryMove" \in Classes /\ Step("StoryMove")
StoryReplace        == "StoryReplace" \in Classes /\ Step("StoryReplace")
EAStoryReplace      == "EAStoryReplace" \in Classes /\ Step("EAStoryReplace")
EAStoryDelete       == "EAStoryDelete" \in Classes /\ Step("EAStoryDelete")
EAStoryInsert       == "EAStoryInsert" \in Classes /\ Step("EAStoryInsert")
EAStorySwap         == "EAStorySwap" \in Classes /\ Step("EAStorySwap")
EAStoryMove         == "EAStoryMove" \in Classes /\ Step("EAStoryMove")
ItemDelete          == "ItemDelete" \in Classes /\ Step("ItemDelete")
ItemInsert          == "ItemInsert" \in Classes /\ Step("ItemInsert")
ItemMoveMultiple    == "ItemMoveMultiple" \in Classes /\ Step("ItemMoveMultiple")
ItemReplace         == "ItemReplace" \in Classes /\ Step("ItemReplace")
EAItemReplace       == "EAItemReplace" \in Classes /\ Step("EAItemReplace")
EAItemDelete        == "EAItemDelete" \in Classes /\ Step("EAItemDelete")
EAItemInsert        == "EAItemInsert" \in Classes /\ Step("EAItemInsert")
EAItemSwap          == "EAItemSwap" \in Classes /\ Step("EAItemSwap")
EAItemMove          == "EAItemMove" \in Classes /\ Step("EAItemMove")
MetaDataReplace     == "MetaDataReplace" \in Classes /\ Step("MetaDataReplace")
ReadyToAir          == "ReadyToAir" \in Classes /\ Step("ReadyToAir")
RunningOrderReplace == "RunningOrderReplace" \in Classes /\ Step("RunningOrderReplace")
RunningOrderEnd     == "RunningOrderEnd" \in Classes /\ Step("RunningOrderEnd")

Next ==
  \/ StorySend
  \/ StoryAppend
  \/ StoryDelete
  \/ StoryInsert
  \/ StoryMove
  \/ StoryReplace
  \/ EAStoryReplace
  \/ EAStoryDelete
  \/ EAStoryInsert
  \/ EAStorySwap
  \/ EAStoryMove
  \/ ItemDelete
  \/ ItemInsert
  \/ ItemMoveMultiple
  \/ ItemReplace
  \/ EAItemReplace
  \/ EAItemDelete
  \/ EAItemInsert
  \/ EAItemSwap
  \/ EAItemMove
  \/ MetaDataReplace
  \/ ReadyToAir
  \/ RunningOrderReplace
  \/ RunningOrderEnd

Spec == Init /\ [][Next]_vars

(* ---------------------------------------------------------------------- *)
(* Theorems, evaluated in every transition state                          *)
(* ---------------------------------------------------------------------- *)
Pre == ShapeOf(last.key)
Stepped == last.status # "init"

Inv_Total        == ~Stepped => \A c \in Classes : \A m \in MsgsFor(c, last.key, ro.kids) : T_Total(ro, m)
Inv_Order        == Stepped => T_Order(Pre, last.msg)
Inv_SpecConforms == Stepped => T_SpecConforms(Pre, last.msg)
Inv_FailAtomic   == Stepped => T_FailAtomic(Pre, last.msg)
Inv_Perm         == Stepped => T_Perm(Pre, last.msg)
(* the state reached is one of the allowed results                        *)
Inv_Member       == Stepped => \E r \in Merge(Pre, last.msg) :
                                  r.post = ro /\ r.status = last.status /\ r.warns = last.warns

=============================================================================
