------------------------------ MODULE MC_merge ------------------------------
(***************************************************************************)
(* Bounded, exhaustive one-step model of `ro += msg`.                      *)
(*                                                                         *)
(* Init    = every abstract running order inside the bound (shape keys).   *)
(* Next    = one merge step with every message inside the bound, for the   *)
(*           classes selected by the configuration.  The one-step bound    *)
(*           is a guard inside Next (not a CONSTRAINT), so every           *)
(*           (pre, message, allowed result) triple is a distinct, checked  *)
(*           TLC state: TLC's distinct states ARE the transition table.    *)
(* Export  = one line per initial state ("PRE") and one per (pre, message) *)
(*           ("CASE"), replayed into the real code by harness/replay.py.   *)
(*                                                                         *)
(* IDs: stories S1..Sn in canonical order (messages range over all ID      *)
(* choices, so every relative position of sources and target occurs);      *)
(* N1,N2 fresh; SU unknown.  Items I1..In, J1,J2 fresh, IU unknown.        *)
(***************************************************************************)
EXTENDS MosTheorems, TLC, Json

CONSTANTS
  Classes,      \* message classes to enumerate
  MaxStories,   \* stories in the running order: 0..MaxStories
  Layouts,      \* subset of {"plain","between","trailing","both"}
  MaxSrc,       \* longest ID list in a message
  MaxCarried,   \* most stories / items carried by a message
  MaxItems,     \* items in the addressed story (item-level shapes): 0..MaxItems
  ILayouts,     \* subset of {"bare","mixed"}: paragraphs between items or not
  Export        \* TRUE: print PRE/CASE lines

VARIABLES ro, last
vars == <<ro, last>>

(* ---------------------------------------------------------------------- *)
(* Building blocks                                                        *)
(* ---------------------------------------------------------------------- *)
SId(i) == "S" \o ToString(i)
IId(i) == "I" \o ToString(i)
FreshS == <<"N1", "N2", "N3">>
FreshI == <<"J1", "J2", "J3">>
UnknownS == "SU"
UnknownI == "IU"
RoIdC == "RO1"

ItemN(id, owner, v) == Leaf("item", id, "x:item." \o owner \o "." \o id \o v)
ParaN(owner, k)     == Leaf("p", None, "x:p." \o owner \o "." \o ToString(k))

StoryHdr(x, v) == << Leaf("storyID", x, "="),
                     Leaf("storySlug", None, "x:slug." \o x \o v),
                     Leaf("mosExternalMetadata", "sch.time", "tm:" \o x \o v) >>

(* a story with two items and a paragraph (story-level shapes)            *)
StoryN(x, v) == Nd("story", x, None,
                   StoryHdr(x, v) \o << ItemN("I1", x, v), ParaN(x, 1), ItemN("I2", x, v) >>)

(* a story with items I1..n (item-level shapes)                           *)
RECURSIVE ItemRun(_, _, _, _)
ItemRun(owner, i, n, mixed) ==
  IF i > n THEN <<>>
  ELSE (IF mixed THEN <<ParaN(owner, i)>> ELSE <<>>) \o <<ItemN(IId(i), owner, "")>>
       \o ItemRun(owner, i+1, n, mixed)
StoryI(x, n, il) ==
  Nd("story", x, None,
     StoryHdr(x, "") \o ItemRun(x, 1, n, il = "mixed")
       \o (IF il = "mixed" THEN <<ParaN(x, n+1)>> ELSE <<>>))

Lead == << Leaf("roID", RoIdC, "="), Leaf("roSlug", None, "x:roSlug"),
           Leaf("roEdStart", None, "ed:0") >>
Between  == Leaf("roTrigger", None, "x:between")
Trailing == Leaf("mosExternalMetadata", "sch.ro", "x:trailing")

RECURSIVE StoryRun(_, _, _)
StoryRun(i, n, between) ==
  IF i > n THEN <<>>
  ELSE <<StoryN(SId(i), "")>> \o (IF between /\ i = 1 THEN <<Between>> ELSE <<>>)
       \o StoryRun(i+1, n, between)

Root == << Leaf("mosID", None, "x:mosID"), Leaf("ncsID", None, "x:ncsID"),
           Leaf("messageID", "1000", "="), Leaf("roCreate", None, None) >>

(* story-level shape: n stories, layout                                   *)
ShapeS(n, lay) ==
  [root |-> Root,
   kids |-> Lead \o (IF n = 0 /\ lay \in {"between", "both"} THEN <<Between>> ELSE <<>>)
                 \o StoryRun(1, n, lay \in {"between", "both"})
                 \o (IF lay \in {"trailing", "both"} THEN <<Trailing>> ELSE <<>>)]

(* item-level shape: S1 with n items, then S2 with the SAME item ids      *)
ShapeI(n, il) ==
  [root |-> Root,
   kids |-> Lead \o << StoryI("S1", n, il), StoryI("S2", n, il), Trailing >>]

(* metadata shape: which replaceable metadata the running order holds     *)
ShapeM(v) ==
  [root |-> Root,
   kids |-> Lead
            \o (IF v \in {"extA", "extAB"} THEN <<Leaf("mosExternalMetadata", "sch.A", "x:extA")>> ELSE <<>>)
            \o <<StoryN("S1", "")>>
            \o (IF v \in {"extAB"} THEN <<Leaf("mosExternalMetadata", "sch.B", "x:extB")>> ELSE <<>>)
            \o <<StoryN("S2", "")>>
            \o (IF v # "none" THEN <<Leaf("roTrigger", None, "x:trig")>> ELSE <<>>)]

StoryKeys == { <<"S", n, lay>> : n \in 0..MaxStories, lay \in Layouts }
ItemKeys  == { <<"I", n, il>>  : n \in 0..MaxItems,   il \in ILayouts }
MetaKeys  == { <<"M", 0, v>>   : v \in {"none", "extA", "extAB"} }

ShapeOf(key) ==
  CASE key[1] = "S" -> ShapeS(key[2], key[3])
    [] key[1] = "I" -> ShapeI(key[2], key[3])
    [] key[1] = "M" -> ShapeM(key[3])

(* ---------------------------------------------------------------------- *)
(* Messages                                                               *)
(* ---------------------------------------------------------------------- *)
SeqsFromTo(S, lo, hi) == UNION { [1..k -> S] : k \in lo..hi }

Msg(cls, story, item, ids, carried) ==
  [cls |-> cls, story |-> story, item |-> item, ids |-> ids, carried |-> carried,
   stok |-> None, hdr |-> <<>>, bodyPos |-> 0, body |-> <<>>]

SRefs(K)  == { RefId(x) : x \in IdSet(K, "story") } \cup { RefId(UnknownS), RefBlank }
IRefs(S)  == { RefId(x) : x \in IdSet(S, "item") }  \cup { RefId(UnknownI), RefBlank }

(* carried stories: fresh ones, in order N1 N2 ..; optionally one that    *)
(* duplicates an existing story (variant content)                         *)
FreshStories(k) == [i \in 1..k |-> StoryN(FreshS[i], "")]
CarriedStories(K) ==
  { FreshStories(k) : k \in 1..MaxCarried }
  \cup { <<StoryN(x, "'")>> \o FreshStories(k) : x \in IdSet(K, "story"), k \in 0..(MaxCarried-1) }
  \cup { FreshStories(1) \o <<StoryN(x, "'")>> \o FreshStories(k) :
            x \in IdSet(K, "story"), k \in 0..(MaxCarried-2) }
FreshItems(k) == [i \in 1..k |-> ItemN(FreshI[i], "msg", "")]
CarriedItems == { FreshItems(k) : k \in 1..MaxCarried }

SendMsgs(K) ==
  { [cls |-> "StorySend", story |-> s, item |-> RefAbsent, ids |-> <<>>, carried |-> <<>>,
     stok |-> None,
     hdr |-> << Leaf("roID", RoIdC, "="),
                Leaf("storyID", s.id, "="),
                Leaf("storySlug", None, "x:sendslug"),
                Leaf("mosExternalMetadata", "sch.time", "tm:send") >>,
     bodyPos |-> bp, body |-> b]
    : s \in SRefs(K), bp \in {1, 4, 5},
      b \in { <<>>,
              << Leaf("storyItem", "I9", "x:senditem") >>,
              << Leaf("p", None, "x:sendp1"), Leaf("storyItem", "I9", "x:senditem"),
                 Leaf("p", None, "x:sendp2"), Leaf("storyItem", "I8", "x:senditem2") >> } }

StoryMsgs(cls, K) ==
  CASE cls = "StorySend"   -> SendMsgs(K)
    [] cls = "StoryAppend" -> { Msg(cls, RefAbsent, RefAbsent, <<>>, c) : c \in CarriedStories(K) }
    [] cls \in {"StoryDelete", "EAStoryDelete"} ->
         { Msg(cls, RefAbsent, RefAbsent, ids, <<>>) : ids \in SeqsFromTo(SRefs(K), 1, MaxSrc) }
    [] cls \in {"StoryInsert", "EAStoryInsert"} ->
         { Msg(cls, t, RefAbsent, <<>>, c) : t \in SRefs(K) \cup {RefAbsent}, c \in CarriedStories(K) }
    [] cls = "StoryMove" ->
         { Msg(cls, RefAbsent, RefAbsent, ids, <<>>) : ids \in SeqsFromTo(SRefs(K), 0, 2) }
    [] cls = "EAStoryMove" ->
         { Msg(cls, t, RefAbsent, ids, <<>>) :
             t \in SRefs(K) \cup {RefAbsent}, ids \in SeqsFromTo(SRefs(K), 1, MaxSrc) }
    [] cls \in {"StoryReplace", "EAStoryReplace"} ->
         { Msg(cls, t, RefAbsent, <<>>, c) : t \in SRefs(K), c \in CarriedStories(K) \cup {<<>>} }
    [] cls = "EAStorySwap" ->
         { Msg(cls, RefAbsent, RefAbsent, ids, <<>>) : ids \in SeqsFromTo(SRefs(K), 2, 2) }

ItemMsgs(cls, K) ==
  LET storyRefs == { RefId("S1"), RefId("S2"), RefId(UnknownS), RefBlank }
      S == K[Idx(K, "story", "S1")].kids
  IN
  CASE cls \in {"ItemDelete", "EAItemDelete"} ->
         { Msg(cls, s, RefAbsent, ids, <<>>) : s \in storyRefs, ids \in SeqsFromTo(IRefs(S), 1, MaxSrc) }
    [] cls \in {"ItemInsert", "EAItemInsert"} ->
         { Msg(cls, s, t, <<>>, c) : s \in storyRefs, t \in IRefs(S), c \in CarriedItems }
    [] cls = "ItemMoveMultiple" ->
         { Msg(cls, s, RefAbsent, ids, <<>>) :
             s \in storyRefs \cup {RefAbsent}, ids \in SeqsFromTo(IRefs(S), 1, MaxSrc + 1) }
    [] cls = "EAItemMove" ->
         { Msg(cls, s, t, ids, <<>>) :
             s \in storyRefs, t \in IRefs(S), ids \in SeqsFromTo(IRefs(S), 1, MaxSrc) }
    [] cls \in {"ItemReplace", "EAItemReplace"} ->
         { Msg(cls, s, t, <<>>, c) : s \in storyRefs, t \in IRefs(S), c \in CarriedItems \cup {<<>>} }
    [] cls = "EAItemSwap" ->
         { Msg(cls, s, RefAbsent, ids, <<>>) : s \in storyRefs, ids \in SeqsFromTo(IRefs(S), 2, 2) }

MetaCarried ==
  LET opts == { Leaf("roSlug", None, "x:newSlug"),
                Leaf("roEdStart", None, "ed:1"),
                Leaf("roChannel", None, "x:newChannel"),
                Leaf("mosExternalMetadata", "sch.A", "x:newExtA"),
                Leaf("mosExternalMetadata", "sch.B", "x:newExtB"),
                Leaf("mosExternalMetadata", "sch.C", "x:newExtC") }
  IN { <<Leaf("roID", RoIdC, "=")>> \o s : s \in SeqsFromTo(opts, 0, 2) }

OtherMsgs(cls, K) ==
  CASE cls = "MetaDataReplace" ->
         { Msg(cls, RefAbsent, RefAbsent, <<>>, c) : c \in MetaCarried }
    [] cls = "ReadyToAir" -> { Msg(cls, RefAbsent, RefAbsent, <<>>, <<>>) }
    [] cls = "RunningOrderEnd" ->
         { Msg(cls, RefAbsent, RefAbsent, <<>>, <<Leaf("roDelete", None, "x:roDelete")>>) }
    [] cls = "RunningOrderReplace" ->
         { Msg(cls, RefAbsent, RefAbsent, <<>>,
               << Leaf("roID", RoIdC, "="), Leaf("roSlug", None, "x:replSlug") >> \o c)
             : c \in { <<>>, FreshStories(1), <<StoryN("S1", "'")>> \o FreshStories(2) } }

Keys == (IF Classes \cap StoryClasses # {} THEN StoryKeys ELSE {})
        \cup (IF Classes \cap ItemClasses # {} THEN ItemKeys ELSE {})
        \cup (IF Classes \cap OtherClasses # {} THEN MetaKeys \cup { <<"S", 2, "plain">> } ELSE {})

MsgsFor(cls, key, K) ==
  CASE cls \in StoryClasses /\ key[1] = "S" -> StoryMsgs(cls, K)
    [] cls \in ItemClasses  /\ key[1] = "I" -> ItemMsgs(cls, K)
    [] cls \in OtherClasses /\ key[1] \in {"M"} -> OtherMsgs(cls, K)
    [] cls \in OtherClasses /\ key = <<"S", 2, "plain">> /\ cls # "MetaDataReplace" -> OtherMsgs(cls, K)
    [] OTHER -> {}

(* ---------------------------------------------------------------------- *)
(* The one-step state machine                                             *)
(* ---------------------------------------------------------------------- *)
NoMsg == Msg("init", RefAbsent, RefAbsent, <<>>, <<>>)

Init ==
  \E key \in Keys :
     /\ ro = ShapeOf(key)
     /\ last = [key |-> key, msg |-> NoMsg, status |-> "init", warns |-> <<>>, loose |-> FALSE]
     /\ (Export => PrintT(<<"PRE", ToJson([key |-> key, ro |-> ShapeOf(key)])>>))

Step(cls) ==
  /\ last.status = "init"
  /\ \E m \in MsgsFor(cls, last.key, ro.kids) :
       /\ (Export => PrintT(<<"CASE", ToJson([key |-> last.key, msg |-> m])>>))
       /\ \E r \in Merge(ro, m) :
            /\ ro' = r.post
            /\ last' = [key |-> last.key, msg |-> m, status |-> r.status,
                        warns |-> r.warns, loose |-> r.loose]

(* one named action per message class, so that -coverage reports each     *)
StorySend           == "StorySend" \in Classes /\ Step("StorySend")
StoryAppend         == "StoryAppend" \in Classes /\ Step("StoryAppend")
StoryDelete         == "StoryDelete" \in Classes /\ Step("StoryDelete")
StoryInsert         == "StoryInsert" \in Classes /\ Step("StoryInsert")
StoryMove           == "StoryMove" \in Classes /\ Step("StoryMove")
StoryReplace        == "StoryReplace" \in Classes /\ Step("StoryReplace")
EAStoryReplace      == "EAStoryReplace" \in Classes /\ Step("EAStoryReplace")
EAStoryDelete       == "EAStoryDelete" \in Classes /\ Step("EAStoryDelete")
EAStoryInsert       == "EAStoryInsert" \in Classes /\ Step("EAStoryInsert")
EAStorySwap         == "EAStorySwap" \in Classes /\ Step("EAStorySwap")
EAStoryMove         == "EAStoryMove" \in Classes /\ Step("EAStoryMove")
ItemDelete          == "ItemDelete" \in Classes /\ Step("ItemDelete")
ItemInsert          == "ItemInsert" \in Classes /\ Step("ItemInsert")
ItemMoveMultiple    == "ItemMoveMultiple" \in Classes /\ Step("ItemMoveMultiple")
ItemReplace         == "ItemReplace" \in Classes /\ Step("ItemReplace")
EAItemReplace       == "EAItemReplace" \in Classes /\ Step("EAItemReplace")
EAItemDelete        == "EAItemDelete" \in Classes /\ Step("EAItemDelete")
EAItemInsert        == "EAItemInsert" \in Classes /\ Step("EAItemInsert")
EAItemSwap          == "EAItemSwap" \in Classes /\ Step("EAItemSwap")
EAItemMove          == "EAItemMove" \in Classes /\ Step("EAItemMove")
MetaDataReplace     == "MetaDataReplace" \in Classes /\ Step("MetaDataReplace")
ReadyToAir          == "ReadyToAir" \in Classes /\ Step("ReadyToAir")
RunningOrderReplace == "RunningOrderReplace" \in Classes /\ Step("RunningOrderReplace")
RunningOrderEnd     == "RunningOrderEnd" \in Classes /\ Step("RunningOrderEnd")

Next ==
  \/ StorySend
  \/ StoryAppend
  \/ StoryDelete
  \/ StoryInsert
  \/ StoryMove
  \/ StoryReplace
  \/ EAStoryReplace
  \/ EAStoryDelete
  \/ EAStoryInsert
  \/ EAStorySwap
  \/ EAStoryMove
  \/ ItemDelete
  \/ ItemInsert
  \/ ItemMoveMultiple
  \/ ItemReplace
  \/ EAItemReplace
  \/ EAItemDelete
  \/ EAItemInsert
  \/ EAItemSwap
  \/ EAItemMove
  \/ MetaDataReplace
  \/ ReadyToAir
  \/ RunningOrderReplace
  \/ RunningOrderEnd

Spec == Init /\ [][Next]_vars

(* ---------------------------------------------------------------------- *)
(* Theorems, evaluated in every transition state                          *)
(* ---------------------------------------------------------------------- *)
Pre == ShapeOf(last.key)
Stepped == last.status # "init"

Inv_Total        == ~Stepped => \A c \in Classes : \A m \in MsgsFor(c, last.key, ro.kids) : T_Total(ro, m)
Inv_Order        == Stepped => T_Order(Pre, last.msg)
Inv_SpecConforms == Stepped => T_SpecConforms(Pre, last.msg)
Inv_FailAtomic   == Stepped => T_FailAtomic(Pre, last.msg)
Inv_Perm         == Stepped => T_Perm(Pre, last.msg)
(* the state reached is one of the allowed results                        *)
Inv_Member       == Stepped => \E r \in Merge(Pre, last.msg) :
                                  r.post = ro /\ r.status = last.status /\ r.warns = last.warns

=============================================================================
