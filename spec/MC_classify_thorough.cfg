SPECIFICATION Spec
CONSTANTS
  Thorough = TRUE
  Export = TRUE
INVARIANT Inv_Total
INVARIANT Inv_OnlyMsgElem
INVARIANT Inv_TagTable
CHECK_DEADLOCK FALSE
