SPECIFICATION FairSpec
CONSTANTS
  MaxDocs = 4
  LongMax = 7
  Export = TRUE
  BulkSizes = {12, 33, 70, 130}
INVARIANT Inv_AcceptStaged
INVARIANT Inv_ReadersExcludeCreate
INVARIANT Inv_PermIndependent
INVARIANT Inv_Ascending
INVARIANT Inv_Expected
PROPERTY Live_Terminates
PROPERTY Live_NonStrictDone
CHECK_DEADLOCK FALSE
