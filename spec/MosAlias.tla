------------------------------- MODULE MosAlias -------------------------------
(***************************************************************************)
(* Why C13 needs copy-on-merge: a small HEAP model.                        *)
(*                                                                         *)
(* Elements have identity.  heap[n] is the sequence of children of node n. *)
(* A message object owns a story node with item nodes below it; a running  *)
(* order is a sequence of story nodes.  Merging either links the message's *)
(* own story node into the running order (InsertMode = "by_reference",     *)
(* what the pinned commit did) or a fresh copy of it ("by_copy", what      *)
(* StorySend / roReplace always did and every merge does after the fix).   *)
(* A later item-level edit changes the children of a story node that is    *)
(* reachable from the running order.                                       *)
(*                                                                         *)
(* With "by_copy" TLC proves (within the bound) that the message's tree    *)
(* never changes and that no node is shared; with "by_reference" it finds  *)
(* the 3-step counterexample  Merge(1) ; Merge(2) ; DeleteItem(1, 1).      *)
(***************************************************************************)
EXTENDS Naturals, Sequences, FiniteSets

CONSTANTS InsertMode, MaxNodes

VARIABLES heap, next, ros
avars == <<heap, next, ros>>

MsgStory == 1                       \* the message's story node; its items are nodes 2 and 3
Nodes == 1..MaxNodes

RECURSIVE Tree(_, _)
Tree(h, n) == [node |-> IF n \in {1, 2, 3} THEN n ELSE 0,      \* identity abstracted away for copies
               kids |-> [i \in DOMAIN h[n] |-> Tree(h, h[n][i])]]
(* content only: copies of node k are equal to node k                     *)
RECURSIVE Content(_, _, _)
Content(h, lbl, n) == [lbl |-> lbl[n], kids |-> [i \in DOMAIN h[n] |-> Content(h, lbl, h[n][i])]]

RECURSIVE Reach(_, _)
Reach(h, n) == {n} \cup UNION { Reach(h, h[n][i]) : i \in DOMAIN h[n] }

Init ==
  /\ heap = [n \in Nodes |-> IF n = MsgStory THEN <<2, 3>> ELSE <<>>]
  /\ next = 4
  /\ ros = [r \in {1, 2} |-> <<>>]

OrigShape == <<2, 3>>               \* what the message carried when it was parsed

(* ro += msg                                                              *)
Merge(r) ==
  /\ Len(ros[r]) < 2
  /\ IF InsertMode = "by_reference"
     THEN /\ ros' = [ros EXCEPT ![r] = Append(@, MsgStory)]
          /\ UNCHANGED <<heap, next>>
     ELSE /\ next + Len(heap[MsgStory]) <= MaxNodes
          /\ LET n == Len(heap[MsgStory])
                 story == next
                 kids == [i \in 1..n |-> next + i]
             IN /\ heap' = [heap EXCEPT ![story] = kids]
                /\ next' = next + n + 1
                /\ ros' = [ros EXCEPT ![r] = Append(@, story)]

(* a later item-level message edits a story inside running order r        *)
DeleteItem(r, i) ==
  /\ i \in DOMAIN ros[r]
  /\ heap[ros[r][i]] # <<>>
  /\ heap' = [heap EXCEPT ![ros[r][i]] = Tail(@)]
  /\ UNCHANGED <<next, ros>>

Next == \E r \in {1, 2} : Merge(r) \/ \E i \in 1..2 : DeleteItem(r, i)
Spec == Init /\ [][Next]_avars

(* the message object is not modified by the merge nor by any later change *)
MsgImmutable == heap[MsgStory] = OrigShape
(* two running orders (and the message) never share mutable content       *)
StoryNodes(r) == UNION { Reach(heap, ros[r][i]) : i \in DOMAIN ros[r] }
NoSharedNodes ==
  /\ StoryNodes(1) \cap StoryNodes(2) = {}
  /\ \A r \in {1, 2} : Reach(heap, MsgStory) \cap StoryNodes(r) = {}
(* an edit in one running order never changes the other one               *)
NoCrossEffect ==
  [][\A r \in {1, 2} : (\E i \in 1..2 : DeleteItem(3 - r, i)) =>
        [i \in DOMAIN ros[r] |-> heap'[ros[r][i]]] = [i \in DOMAIN ros[r] |-> heap[ros[r][i]]]]_avars
=============================================================================
