----------------------------- MODULE MC_classify -----------------------------
(***************************************************************************)
(* Bounded enumeration of documents for MosClassify: every document is     *)
(* one TLC state, classified in one step; exported and replayed into       *)
(* MosFile.from_string / from_file by harness/classify.py.                 *)
(***************************************************************************)
EXTENDS MosClassify

(* ---------------------------------------------------------------------- *)
(* Bounded model                                                          *)
(* ---------------------------------------------------------------------- *)
CONSTANTS Thorough, Export

Kid(tag, childless, op, tgt, src, nest) ==
  [tag |-> tag, childless |-> childless, op |-> op, tgt |-> tgt, src |-> src, nest |-> nest,
   tgt2 |-> "absent", src2 |-> "absent"]
(* a roElementAction that repeats its element_target / element_source: a   *)
(* LATER block of another shape                                            *)
Kid2(op, tgt, src, tgt2, src2) ==
  [Kid("roElementAction", FALSE, op, tgt, src, None) EXCEPT !.tgt2 = tgt2, !.src2 = src2]
Seconds == { <<"storyitem", "absent">>, <<"absent", "itemID">>, <<"storyitem", "itemID">>, <<"story", "storyID">> }
Foreign(tag)       == Kid(tag, FALSE, None, "absent", "absent", None)
Wrapper(tag, nest) == Kid(tag, FALSE, None, "absent", "absent", nest)

Ops  == {"REPLACE", "DELETE", "INSERT", "SWAP", "MOVE", "CLEAR", None}
Tgts == {"absent", "empty", "story", "storyitem", "storyitemblank"}
Srcs == {"absent", "empty", "storyID", "itemID", "itemIDblank", "item", "story"}

MsgKids ==
  { Kid(t, c, None, "absent", "absent", None) : t \in MsgTags \ {"roElementAction"}, c \in BOOLEAN }
  \cup { Kid("roElementAction", FALSE, op, tg, sr, None) : op \in Ops, tg \in Tgts, sr \in Srcs }
  \cup { Kid("roElementAction", TRUE, op, "absent", "absent", None) : op \in {"MOVE", None} }
  \cup { Kid2(op, tg, sr, x[1], x[2]) : op \in Ops \ {"CLEAR", None}, tg \in {"story", "storyitem"},
                                        sr \in {"storyID", "itemID", "story", "item"}, x \in Seconds }

Pres  == IF Thorough
         THEN { <<>>, <<Foreign("mosID"), Foreign("ncsID"), Foreign("messageID")>>,
                <<Foreign("messageID")>>, <<Wrapper("mosromgrmeta", "roDelete")>>,
                <<Foreign("zzz"), Wrapper("wrapper", "roCreate")>> }
         ELSE { <<>>, <<Foreign("mosID"), Foreign("ncsID"), Foreign("messageID")>>,
                <<Wrapper("mosromgrmeta", "roDelete")>> }
Posts == IF Thorough
         THEN { <<>>, <<Foreign("messageID")>>, <<Wrapper("mosromgrmeta", "roDelete")>>,
                <<Foreign("aaa"), Wrapper("wrapper", "roStorySend")>> }
         ELSE { <<>>, <<Wrapper("mosromgrmeta", "roDelete"), Foreign("messageID")>> }

WellFormedDocs ==
  { [wf |-> "ok", root |-> "mos", kids |-> p \o <<k>> \o q] : p \in Pres, k \in MsgKids, q \in Posts }
  \cup { [wf |-> "ok", root |-> r, kids |-> p \o q] : r \in {"mos", "roCreate", "html"}, p \in Pres, q \in Posts }
  \* a message element in a namespace is another element: not recognised
  \cup { [wf |-> "ok", root |-> "mos", kids |-> p \o <<Foreign(t)>> \o q]
          : t \in {"{urn:verif}roCreate", "{urn:verif}roDelete", "{urn:verif}roElementAction", "{urn:verif}roStorySend"},
            p \in Pres, q \in Posts }
MalformedDocs ==
  { [wf |-> w, root |-> "mos", kids |-> <<Foreign("messageID"), Kid(t, FALSE, None, "absent", "absent", None)>>]
      : w \in {"truncated", "garbled", "empty", "nonxml", "blank", "trailff", "trailnbsp", "traills", "leadnbsp"}, t \in {"roCreate", "roDelete"} }
Docs == WellFormedDocs \cup MalformedDocs

VARIABLES doc, res
cvars == <<doc, res>>

Init == doc \in Docs /\ res = "?"
DoClassify ==
  /\ res = "?"
  /\ res' = Classify(doc)
  /\ doc' = doc
  /\ (Export => PrintT(<<"DOC", ToJson([doc |-> doc])>>))
Next == DoClassify
Spec == Init /\ [][Next]_cvars

(* T08: total, and the library's own outcomes only                        *)
Inv_Total == res # "?" => res \in AllResults
(* T08: decided by the message element alone: any two documents of the    *)
(* bound with the same message element classify alike                     *)
Inv_OnlyMsgElem ==
  res # "?" => \A d \in Docs : MsgElem(d) = MsgElem(doc) => Classify(d) = res
(* every recognised non-EA tag with or without children gives its class   *)
Inv_TagTable ==
  (res # "?" /\ doc.wf = "ok" /\ FirstMsg(doc.kids) # 0 /\ doc.kids[FirstMsg(doc.kids)].tag # "roElementAction")
     => res = TagClass[doc.kids[FirstMsg(doc.kids)].tag]

=============================================================================
