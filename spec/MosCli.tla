-------------------------------- MODULE MosCli --------------------------------
(***************************************************************************)
(* The command line (C19).                                                 *)
(*                                                                         *)
(* detect / inspect: a per-file loop.  A file is [kind, cls, completed]:   *)
(*   kind : "valid" | "nonxml" | "unknown" | "missing" | "dir"             *)
(*   cls  : class the library assigns to a valid file                      *)
(* For every listed file, in order, exactly one marker:                    *)
(*   valid  -> stdout  "<file>: <cls>[ (completed)]"                       *)
(*   others -> a line "<file>: <something that is not a class name>" on    *)
(*             stdout or stderr (the file is marked invalid)               *)
(* and one bad or unreadable file never prevents the others from being     *)
(* processed.                                                              *)
(*                                                                         *)
(* merge: accepted and merged exactly as MosCollection does it;            *)
(*   rc = 0 and the serialisation written (stdout or -o) on success,       *)
(*   rc = 2 and a message on stderr on any error, nothing written.         *)
(***************************************************************************)
EXTENDS MosCollection

ClassNames ==
  {"RunningOrder", "StorySend", "StoryAppend", "StoryDelete", "StoryInsert", "StoryMove", "StoryReplace",
   "ItemDelete", "ItemInsert", "ItemMoveMultiple", "ItemReplace", "RunningOrderReplace", "MetaDataReplace",
   "ReadyToAir", "RunningOrderEnd", "EAStoryReplace", "EAItemReplace", "EAStoryDelete", "EAItemDelete",
   "EAStoryInsert", "EAItemInsert", "EAStorySwap", "EAItemSwap", "EAStoryMove", "EAItemMove"}

IsValid(f) == f.kind = "valid"
Marker(f) == f.cls \o (IF f.completed THEN " (completed)" ELSE "")

(* what the observed lines for file f must look like.                      *)
(* o == [out : Seq(remainders of stdout lines "<file>: ..."), err : Seq(...)] *)
IsClassMarker(s) == \E c \in ClassNames : s = c \/ s = c \o " (completed)"
FileOk(f, o) ==
  IF IsValid(f)
  THEN o.out = <<Marker(f)>> /\ \A i \in DOMAIN o.err : ~IsClassMarker(o.err[i])
  ELSE /\ Len(o.out) + Len(o.err) >= 1
       /\ \A i \in DOMAIN o.out : ~IsClassMarker(o.out[i])
       /\ \A i \in DOMAIN o.err : ~IsClassMarker(o.err[i])

(* C07's part of the command line: a classifiable file is labelled          *)
(* "(completed)" exactly when it is a completed running order (judged on   *)
(* the marker lines that were printed; whether every file gets a marker is *)
(* C19's business)                                                         *)
EndsCompleted(x) == \E c \in ClassNames : x = c \o " (completed)"
CompletedLabelOk(f, o) ==
  IsValid(f) => \A i \in DOMAIN o.out : IsClassMarker(o.out[i]) => (EndsCompleted(o.out[i]) <=> f.completed)

(* how the documents are named on the command line                        *)
(*   "files"                 -f f1 f2 ...                                   *)
(*   "bucket_prefix"         -b bucket -p prefix        (default suffix)    *)
(*   "bucket_prefix_suffix"  -b bucket -p prefix -s suffix                  *)
(*   "bucket_key"            -b bucket -k key           (detect / inspect)  *)
(*   "bucket_only"           -b bucket                                      *)
(*   "none"                  nothing                                        *)
(* detect / inspect need files, or a bucket with a prefix or a key; merge  *)
(* needs files or a bucket (a missing prefix means the whole bucket).      *)
UsageError(cmd, mode) ==
  IF cmd = "merge" THEN mode = "none" ELSE mode \in {"bucket_only", "none"}

(* merge command                                                           *)
MergeRcMode(ds, allowIncomplete, nonStrict, mode) ==
  IF UsageError("merge", mode) THEN 2
  ELSE IF ~Accepts(ds, allowIncomplete) THEN 2
  ELSE IF ~nonStrict /\ Expected(ds, TRUE).raisedAt # 0 THEN 2
  ELSE 0

MergeRc(ds, allowIncomplete, nonStrict) ==
  IF ~Accepts(ds, allowIncomplete) THEN 2
  ELSE IF ~nonStrict /\ Expected(ds, TRUE).raisedAt # 0 THEN 2
  ELSE 0
=============================================================================
