------------------------------- MODULE MosGen -------------------------------
(***************************************************************************)
(* Bounded generators shared by the one-step model (MC_merge) and the      *)
(* history model (MosLife): abstract running orders ("shapes") and, for a  *)
(* given child sequence K, every message of a class inside the bound.      *)
(* Message generators depend only on K, so they can be applied to any      *)
(* state a history reaches.                                                *)
(***************************************************************************)
EXTENDS MosTheorems, TLC

CONSTANTS
  MaxSrc,       \* longest ID list in a message
  MaxCarried    \* most stories / items carried by a message

(* ---------------------------------------------------------------------- *)
(* Building blocks                                                        *)
(* ---------------------------------------------------------------------- *)
SId(i) == "S" \o ToString(i)
IId(i) == "I" \o ToString(i)
FreshPoolS == <<"N1", "N2", "N3", "N4", "N5", "N6", "N7", "N8", "N9">>
FreshPoolI == <<"J1", "J2", "J3", "J4", "J5", "J6", "J7", "J8", "J9">>
(* the first ids of a pool that are not yet used in the sequence           *)
FreshFrom(pool, used) == SelectSeq(pool, LAMBDA x : x \notin used)
UnknownS == "SU"
UnknownI == "IU"
RoIdC == "RO1"

ItemN(id, owner, v) == Leaf("item", id, "x:item." \o owner \o "." \o id \o v)
ParaN(owner, k)     == Leaf("p", None, "x:p." \o owner \o "." \o ToString(k))
(* elements of another namespace whose local names are story / item and   *)
(* which spell the id of a later real story / item: not stories, not items *)
GhostStory == Leaf("{urn:verif:arc}story", None, "x:ghost.story")
GhostItem  == Leaf("{urn:verif:arc}item", None, "x:ghost.item")
(* an item followed by character data (token "xt:": gamma writes text after the element) *)
ItemT(id, owner, v) == Leaf("item", id, "xt:item." \o owner \o "." \o id \o v)

StoryHdr(x, v) == << Leaf("storyID", x, "="),
                     Leaf("storySlug", None, "x:slug." \o x \o v),
                     Leaf("mosExternalMetadata", "sch.time", "tm:" \o x \o v) >>

(* a story with two items and a paragraph (story-level shapes)            *)
StoryN(x, v) == Nd("story", x, None,
                   StoryHdr(x, v) \o << ItemN("I1", x, v), ParaN(x, 1), ItemN("I2", x, v) >>)
(* the same without any timing metadata (no mosExternalMetadata at all)   *)
StoryNT(x) == Nd("story", x, None,
                 << Leaf("storyID", x, "="), Leaf("storySlug", None, "x:slug." \o x \o "-nt"),
                    ItemN("I1", x, "-nt"), ParaN(x, 1) >>)
(* a bare story: storyID and one item only - no slug, no timing           *)
StoryBare(x, v) == Nd("story", x, None, << Leaf("storyID", x, "="), ItemN("I1", x, v) >>)
(* unusual but legal story markup: the element carries attributes of its  *)
(* own, and a second <storyID> child follows the items (the first one is  *)
(* the story's id; the second one spells the id messages use as "unknown") *)
StoryAttr(x) == [StoryN(x, "") EXCEPT !.tok = "a:" \o x,
                                      !.kids = @ \o <<Leaf("storyID", UnknownS, "=")>>]
(* a story whose timing payload is not numeric (blank TextTime, "n/a" as   *)
(* StoryDuration): merging needs IDs only, so this must not matter         *)
StoryBadTime(x) == Nd("story", x, None,
                      << Leaf("storyID", x, "="), Leaf("storySlug", None, "x:slug." \o x),
                         Leaf("mosExternalMetadata", "sch.time", "tmb:" \o x),
                         ItemN("I1", x, ""), ParaN(x, 1), ItemN("I2", x, "") >>)
(* a placeholder story: id and slug only, no items yet                    *)
StoryEmpty(x) == Nd("story", x, None, << Leaf("storyID", x, "="), Leaf("storySlug", None, "x:slug." \o x \o "-empty") >>)
(* a story whose storyID tag is blank                                      *)
StoryBlank == Nd("story", None, None,
                 StoryHdr(None, "") \o << ItemN("I1", "SB", ""), ParaN("SB", 1) >>)

(* a story with items I1..n (item-level shapes)                           *)
RECURSIVE ItemRun(_, _, _, _)
ItemRun(owner, i, n, mixed) ==
  IF i > n THEN <<>>
  ELSE (IF mixed THEN (IF i = 2 THEN <<GhostItem>> ELSE <<>>) \o <<ParaN(owner, i), ItemT(IId(i), owner, "")>>
        ELSE <<ItemN(IId(i), owner, "")>>)
       \o ItemRun(owner, i+1, n, mixed)
(* "itemfirst": the first item precedes the story's own header elements  *)
StoryI(x, n, il) ==
  Nd("story", x, None,
     IF il = "itemfirst" /\ n >= 1
     THEN <<ItemN(IId(1), x, "")>> \o StoryHdr(x, "") \o ItemRun(x, 2, n, FALSE)
     ELSE IF il = "dup" /\ n >= 2              \* the last item repeats the first one's id
     THEN StoryHdr(x, "") \o ItemRun(x, 1, n - 1, FALSE) \o <<ItemN(IId(1), x, "'")>>
     ELSE StoryHdr(x, "") \o ItemRun(x, 1, n, il = "mixed")
            \o (IF il = "mixed" THEN <<ParaN(x, n+1)>> ELSE <<>>))

Lead == << Leaf("roID", RoIdC, "="), Leaf("roSlug", None, "x:roSlug"),
           Leaf("roEdStart", None, "ed:0") >>
Between  == Leaf("roTrigger", None, "x:between")
LeadNoSlug == << Leaf("roID", RoIdC, "="), Leaf("roEdStart", None, "ed:0") >>
Trailing == Leaf("mosExternalMetadata", "sch.ro", "x:trailing")

(* layouts: "plain" | "between" | "trailing" | "both" (where metadata sits) *)
(*          "nt1" / "nt2": the first / second story has no timing metadata  *)
(*          "blank": the last story's storyID is blank                      *)
(*          "attr": every <story> element carries attributes                *)
(*          "dup": the last story carries the same storyID as the first     *)
(*          "badtime": the first story's timing payload is not numeric      *)
RECURSIVE StoryRun(_, _, _)
StoryRun(i, n, lay) ==
  IF i > n THEN <<>>
  ELSE << IF (lay = "nt1" /\ i = 1) \/ (lay = "nt2" /\ i = 2) THEN StoryNT(SId(i))
          ELSE IF lay = "blank" /\ i = n THEN StoryBlank
          ELSE IF lay = "attr" THEN StoryAttr(SId(i))
          ELSE IF lay = "badtime" /\ i = 1 THEN StoryBadTime(SId(i))
          ELSE IF lay = "dup" /\ i = n /\ n >= 2 THEN StoryN(SId(1), "'")      \* the last story repeats the first one's id
          ELSE StoryN(SId(i), "") >>
       \o (IF lay \in {"between", "both"} /\ i = 1 THEN <<Between, GhostStory>> ELSE <<>>)
       \o StoryRun(i+1, n, lay)

Root == << Leaf("mosID", None, "x:mosID"), Leaf("ncsID", None, "x:ncsID"),
           Leaf("messageID", "1000", "="), Leaf("roCreate", None, None) >>
(* the <roCreate> element carries attributes of its own                    *)
RootAttr == [Root EXCEPT ![4] = Leaf("roCreate", None, "a:create")]

(* story-level shape: n stories, layout                                   *)
ShapeS(n, lay) ==
  [root |-> IF lay = "attr" THEN RootAttr ELSE Root,
   kids |-> (IF lay = "leadlast" THEN <<>> ELSE IF lay = "badtime" THEN LeadNoSlug ELSE Lead)       \* "leadlast": the stories come first, roID & co after them; "badtime": no roSlug either
                 \o (IF n = 0 /\ lay \in {"between", "both"} THEN <<Between>> ELSE <<>>)
                 \o StoryRun(1, n, lay)
                 \o (IF lay \in {"trailing", "both"} THEN <<Trailing>> ELSE <<>>)
                 \o (IF lay = "leadlast" THEN Lead ELSE <<>>)]

(* item-level shape: S1 with n items, then S2 with the SAME item ids      *)
ShapeI(n, il) ==
  [root |-> Root,
   kids |-> Lead \o << StoryI("S1", n, il), StoryI("S2", n, il), Trailing >>]

(* metadata shape: which replaceable metadata the running order holds     *)
ShapeM(v) ==
  [root |-> IF v = "extAB" THEN RootAttr ELSE Root,
   kids |-> Lead
            \o (IF v \in {"extA", "extAB", "extAA"} THEN <<Leaf("mosExternalMetadata", "sch.A", "x:extA")>> ELSE <<>>)
            \o <<StoryN("S1", "")>>
            \o (IF v \in {"extAB"} THEN <<Leaf("mosExternalMetadata", "sch.B", "x:extB")>> ELSE <<>>)
            \o (IF v = "extAA" THEN <<Leaf("mosExternalMetadata", "sch.A", "x:extA2")>> ELSE <<>>)      \* the same schema twice
            \o <<StoryN("S2", "")>>
            \o (IF v # "none" THEN <<Leaf("roTrigger", None, "x:trig")>> ELSE <<>>)]


ShapeOf(key) ==
  CASE key[1] = "S" -> ShapeS(key[2], key[3])
    [] key[1] = "I" -> ShapeI(key[2], key[3])
    [] key[1] = "M" -> ShapeM(key[3])

(* ---------------------------------------------------------------------- *)
(* Messages                                                               *)
(* ---------------------------------------------------------------------- *)
SeqsFromTo(S, lo, hi) == UNION { [1..k -> S] : k \in lo..hi }

Msg(cls, story, item, ids, carried) ==
  [cls |-> cls, story |-> story, item |-> item, ids |-> ids, carried |-> carried,
   stok |-> None, hdr |-> <<>>, bodyPos |-> 0, body |-> <<>>]

SRefs(K)  == { RefId(x) : x \in IdSet(K, "story") \ {None} } \cup { RefId(UnknownS), RefBlank }
IRefs(S)  == { RefId(x) : x \in IdSet(S, "item") \ {None} }  \cup { RefId(UnknownI), RefBlank }

(* carried stories: fresh ones, in order N1 N2 ..; optionally one that    *)
(* duplicates an existing story (variant content)                         *)
FreshStories(K, k) ==
  LET f == FreshFrom(FreshPoolS, IdSet(K, "story")) IN [i \in 1..k |-> StoryN(f[i], "")]
RealIds(K) == IdSet(K, "story") \ {None}
CarriedStories(K) ==
  { FreshStories(K, k) : k \in 1..MaxCarried }
  \cup { <<StoryNT(FreshFrom(FreshPoolS, IdSet(K, "story"))[1])>> }                  \* a story without timing
  \cup { <<StoryAttr(FreshFrom(FreshPoolS, IdSet(K, "story"))[1])>> }                \* attributes; followed by text
  \cup { <<StoryBadTime(FreshFrom(FreshPoolS, IdSet(K, "story"))[1])>> \o SubSeq(FreshStories(K, 2), 2, 2) }   \* non-numeric timing, then another
  \cup { FreshStories(K, 1) \o <<StoryBare(x, "'")>> : x \in RealIds(K) }             \* a slug-less duplicate, 2nd
  \cup { <<StoryN(FreshFrom(FreshPoolS, IdSet(K, "story"))[1], ""),                   \* the same new id twice
           StoryBare(FreshFrom(FreshPoolS, IdSet(K, "story"))[1], "'")>> }
  \cup (IF MaxCarried >= 3                                                          \* two duplicates in one message
        THEN { <<StoryN(x, "'"), StoryN(y, "'")>> \o FreshStories(K, 1) : x, y \in RealIds(K) }
             \cup { <<StoryN(x, "'")>> \o FreshStories(K, 1) \o <<StoryN(y, "'")>> : x, y \in RealIds(K) }
        ELSE {})
  \cup { <<StoryN(x, "'")>> \o FreshStories(K, k) : x \in RealIds(K), k \in 0..(MaxCarried-1) }
  \cup { FreshStories(K, 1) \o <<StoryN(x, "'")>> \o SubSeq(FreshStories(K, k+1), 2, k+1) :
            x \in RealIds(K), k \in 0..(MaxCarried-2) }
FreshItems(S, k) ==
  LET f == FreshFrom(FreshPoolI, IdSet(S, "item"))
  IN [i \in 1..k |-> IF i = 1 THEN ItemT(f[i], "msg", "") ELSE ItemN(f[i], "msg", "")]     \* the first one is followed by text
CarriedItems(S) == { FreshItems(S, k) : k \in 1..MaxCarried }

SendMsgsAll(K) ==
  { [cls |-> "StorySend", story |-> s, item |-> RefAbsent, ids |-> <<>>, carried |-> <<>>,
     stok |-> st,
     hdr |-> << Leaf("roID", RoIdC, "="),
                Leaf("storyID", s.id, "="),
                Leaf("storySlug", None, "x:sendslug"),
                Leaf("mosExternalMetadata", "sch.time", "tm:send") >>,
     bodyPos |-> bp, body |-> b]
    : s \in SRefs(K), bp \in {0, 1, 4, 5}, st \in {None, "a:send"},
      b \in { <<>>,
              << Leaf("storyItem", "I9", "x:senditem") >>,
              << Leaf("storyItem", None, "x:senditem.noid"), Leaf("p", None, "x:sendp1") >>,     \* an item that has no id
              << Leaf("p", None, "x:sendp1"), Leaf("storyItem", "I9", "x:senditem"),
                 Leaf("p", None, "x:sendp2"), Leaf("storyItem", "I8", "x:senditem2") >>,
              << Leaf("p", None, "e:empty"), Leaf("storyItem", "I9", "x:senditem"),
                 Leaf("p", None, "w:blank"), Leaf("p", None, "e:empty"), Leaf("storyTag", None, "x:other") >> } }
(* without a <storyBody> (bodyPos = 0) there are no body children to speak of *)
SendMsgs(K) == { m \in SendMsgsAll(K) : m.bodyPos = 0 => m.body = <<>> }

StoryMsgs(cls, K) ==
  CASE cls = "StorySend"   -> SendMsgs(K)
    [] cls = "StoryAppend" -> { Msg(cls, RefAbsent, RefAbsent, <<>>, c) : c \in CarriedStories(K) }
    [] cls \in {"StoryDelete", "EAStoryDelete"} ->
         { Msg(cls, RefAbsent, RefAbsent, ids, <<>>) : ids \in SeqsFromTo(SRefs(K), 1, MaxSrc) }
    [] cls \in {"StoryInsert", "EAStoryInsert"} ->
         { Msg(cls, t, RefAbsent, <<>>, c) : t \in SRefs(K) \cup {RefAbsent}, c \in CarriedStories(K) }
    [] cls = "StoryMove" ->
         { Msg(cls, RefAbsent, RefAbsent, ids, <<>>) : ids \in SeqsFromTo(SRefs(K), 0, 2) }
    [] cls = "EAStoryMove" ->
         { Msg(cls, t, RefAbsent, ids, <<>>) :
             t \in SRefs(K) \cup {RefAbsent}, ids \in SeqsFromTo(SRefs(K), 1, MaxSrc) }
    [] cls \in {"StoryReplace", "EAStoryReplace"} ->
         { Msg(cls, t, RefAbsent, <<>>, c) : t \in SRefs(K), c \in CarriedStories(K) \cup {<<>>} }
    [] cls = "EAStorySwap" ->
         { Msg(cls, RefAbsent, RefAbsent, ids, <<>>) : ids \in SeqsFromTo(SRefs(K), 2, 2) }

(* item-level messages addressing story sid.  The full enumeration of ID  *)
(* lists is done for the addressed story; other stories, an unknown and a *)
(* blank story reference are tried with short lists only (the story       *)
(* lookup fails or hits another story before the list matters).           *)
ItemMsgs(cls, K, sid) ==
  LET storyRefs == SRefs(K)
      S == K[Idx(K, "story", sid)].kids
      Lim(s, n) == IF s = RefId(sid) THEN n ELSE 1
  IN
  CASE cls \in {"ItemDelete", "EAItemDelete"} ->
         UNION { { Msg(cls, s, RefAbsent, ids, <<>>) : ids \in SeqsFromTo(IRefs(S), 1, Lim(s, MaxSrc)) }
                   : s \in storyRefs }
    [] cls \in {"ItemInsert", "EAItemInsert"} ->
         { Msg(cls, s, t, <<>>, c) : s \in storyRefs, t \in IRefs(S), c \in CarriedItems(S) }
    [] cls = "ItemMoveMultiple" ->
         UNION { { Msg(cls, s, RefAbsent, ids, <<>>) : ids \in SeqsFromTo(IRefs(S), 1, Lim(s, MaxSrc) + 1) }
                   : s \in storyRefs \cup {RefAbsent} }
    [] cls = "EAItemMove" ->
         UNION { { Msg(cls, s, t, ids, <<>>) : t \in IRefs(S), ids \in SeqsFromTo(IRefs(S), 1, Lim(s, MaxSrc)) }
                   : s \in storyRefs }
    [] cls \in {"ItemReplace", "EAItemReplace"} ->
         { Msg(cls, s, t, <<>>, c) : s \in storyRefs, t \in IRefs(S), c \in CarriedItems(S) \cup {<<>>} }
    [] cls = "EAItemSwap" ->
         { Msg(cls, s, RefAbsent, ids, <<>>) : s \in storyRefs, ids \in SeqsFromTo(IRefs(S), 2, 2) }

MetaCarried ==
  LET opts == { Leaf("roSlug", None, "x:newSlug"),
                Leaf("roSlug", None, "x:newSlug2"),              \* the same element twice in one message, with other content
                Leaf("roEdStart", None, "ed:1"),
                Leaf("roChannel", None, "x:newChannel"),
                Leaf("mosExternalMetadata", "sch.A", "x:newExtA"),
                Leaf("mosExternalMetadata", "sch.B", "x:newExtB"),
                Leaf("mosExternalMetadata", "sch.C", "x:newExtC") }
  IN { <<Leaf("roID", RoIdC, "=")>> \o s : s \in SeqsFromTo(opts, 0, 2) }

OtherMsgs(cls, K) ==
  CASE cls = "MetaDataReplace" ->
         { Msg(cls, RefAbsent, RefAbsent, <<>>, c) : c \in MetaCarried }
    [] cls = "ReadyToAir" -> { Msg(cls, RefAbsent, RefAbsent, <<>>, <<>>) }
    [] cls = "RunningOrderEnd" ->
         { Msg(cls, RefAbsent, RefAbsent, <<>>, <<Leaf("roDelete", None, t)>>)
             : t \in {"x:roDelete", "x:roDelete.foreign"} }     \* the second one carries another roID
    [] cls = "RunningOrderReplace" ->
         { [Msg(cls, RefAbsent, RefAbsent, <<>>,
                << Leaf("roID", RoIdC, "="), Leaf("roSlug", None, "x:replSlug") >> \o e \o c) EXCEPT !.stok = st]
             : st \in {None, "a:repl"}, e \in { <<>>, <<Leaf("roEdStart", None, "e:empty")>> }, c \in { <<>>, FreshStories(K, 1), <<StoryN("S1", "'")>> \o FreshStories(K, 2) } }

=============================================================================
