----------------------------- MODULE MosClassify -----------------------------
(***************************************************************************)
(* Classification of a document (MosFile.from_file / from_string):         *)
(* which class, or which library exception, every document must give.      *)
(*                                                                         *)
(* A document is                                                           *)
(*   [wf, root, kids]                                                      *)
(*   wf   : "ok" or a kind of malformedness                                *)
(*   root : tag of the root element                                        *)
(*   kids : children of the root, each                                     *)
(*          [tag, childless, op, tgt, src, nest]                           *)
(*          op  : operation attribute of roElementAction (None = missing)  *)
(*          tgt : "absent" | "empty" | "story" | "storyitem" | "storyitemblank" *)
(*                (element_target: storyID only / + itemID / + blank itemID) *)
(*          src : "absent" | "empty" | "storyID" | "itemID" | "itemIDblank" | *)
(*                "item" | "story"                              element_source *)
(*          nest: a message tag nested INSIDE this (foreign) element, or None *)
(*          tgt2, src2 : shape of a SECOND, later element_target /         *)
(*                element_source block ("absent" = there is none).  Merging *)
(*                reads the first block of each kind, so the first block    *)
(*                alone decides the class.                                  *)
(* C08: the class is decided only by the top-level message element.        *)
(***************************************************************************)
EXTENDS Naturals, Sequences, FiniteSets, TLC, Json

None == "~"

TagClass ==
  [ roCreate |-> "RunningOrder", roStorySend |-> "StorySend", roStoryAppend |-> "StoryAppend",
    roStoryDelete |-> "StoryDelete", roStoryInsert |-> "StoryInsert", roStoryMove |-> "StoryMove",
    roStoryReplace |-> "StoryReplace", roItemDelete |-> "ItemDelete", roItemInsert |-> "ItemInsert",
    roItemMoveMultiple |-> "ItemMoveMultiple", roItemReplace |-> "ItemReplace",
    roReplace |-> "RunningOrderReplace", roMetadataReplace |-> "MetaDataReplace",
    roReadyToAir |-> "ReadyToAir", roDelete |-> "RunningOrderEnd", roElementAction |-> "ElementAction" ]
MsgTags == DOMAIN TagClass

Unknown == "UnknownMosFileType"
Invalid == "MosInvalidXML"

(* decided by the presence of an itemID element, blank or not             *)
TargetHasItem(k) == k.tgt \in {"storyitem", "storyitemblank"}
SourceHasItem(k) == k.src \in {"itemID", "itemIDblank"}

(* the library's documented roElementAction table                         *)
EAClass(k) ==
  LET t == TargetHasItem(k)
      s == SourceHasItem(k)
  IN IF k.childless \/ k.src = "absent" THEN Unknown       \* element_source is required
     ELSE CASE k.op = "REPLACE" /\ ~t /\ ~s -> "EAStoryReplace"
            [] k.op = "REPLACE" /\  t /\ ~s -> "EAItemReplace"
            [] k.op = "DELETE"  /\ ~t /\ ~s -> "EAStoryDelete"
            [] k.op = "DELETE"  /\ ~t /\  s -> "EAItemDelete"
            [] k.op = "INSERT"  /\ ~t /\ ~s -> "EAStoryInsert"
            [] k.op = "INSERT"  /\  t /\ ~s -> "EAItemInsert"
            [] k.op = "SWAP"    /\ ~t /\ ~s -> "EAStorySwap"
            [] k.op = "SWAP"    /\ ~t /\  s -> "EAItemSwap"
            [] k.op = "MOVE"    /\ ~t /\ ~s -> "EAStoryMove"
            [] k.op = "MOVE"    /\  t /\  s -> "EAItemMove"
            [] OTHER -> Unknown

ClassOfElement(k) == IF k.tag = "roElementAction" THEN EAClass(k) ELSE TagClass[k.tag]

FirstMsg(kids) ==
  IF \E i \in DOMAIN kids : kids[i].tag \in MsgTags
  THEN CHOOSE i \in DOMAIN kids : kids[i].tag \in MsgTags /\ \A j \in 1..(i-1) : kids[j].tag \notin MsgTags
  ELSE 0

Classify(d) ==
  IF d.wf # "ok" THEN Invalid
  ELSE LET i == FirstMsg(d.kids) IN IF i = 0 THEN Unknown ELSE ClassOfElement(d.kids[i])

AllResults == { TagClass[t] : t \in MsgTags \ {"roElementAction"} }
              \cup { "EAStoryReplace", "EAItemReplace", "EAStoryDelete", "EAItemDelete", "EAStoryInsert",
                     "EAItemInsert", "EAStorySwap", "EAItemSwap", "EAStoryMove", "EAItemMove" }
              \cup { Unknown, Invalid }

(* the message element of a document: what alone may decide the outcome   *)
MsgElem(d) == IF d.wf # "ok" THEN <<"malformed">>
              ELSE LET i == FirstMsg(d.kids) IN IF i = 0 THEN <<"none">> ELSE <<"elem", d.kids[i]>>

=============================================================================
