SPECIFICATION FairSpec
CONSTANTS
  MaxDocs = 3
  LongMax = 5
  Export = TRUE
  BulkSizes = {12, 70}
INVARIANT Inv_AcceptStaged
INVARIANT Inv_ReadersExcludeCreate
INVARIANT Inv_PermIndependent
INVARIANT Inv_Ascending
INVARIANT Inv_Expected
PROPERTY Live_Terminates
PROPERTY Live_NonStrictDone
CHECK_DEADLOCK FALSE
