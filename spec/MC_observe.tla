------------------------------ MODULE MC_observe ------------------------------
(***************************************************************************)
(* Bounded enumeration of running-order views for MosObserve.              *)
(*  Family "timing": 0..MaxN stories, each with one of the timing shapes   *)
(*     (no metadata, metadata without payload, StoryDuration, TextTime,    *)
(*     MediaTime, both, StoryDuration + TextTime, explicit started/ended), *)
(*     with and without roEdStart.                                         *)
(*  Family "text": one story whose single paragraph ranges over EVERY      *)
(*     string up to MaxLen over {space, tab, nbsp, ( ) < > a}, and two     *)
(*     stories whose bodies range over sequences of {plain p, empty p,     *)
(*     bracketed p, item, other element}.                                  *)
(* Theorems: the arithmetic identities of C16 and the structural facts of  *)
(* C17 hold of the specification's own operators.                          *)
(***************************************************************************)
EXTENDS MosObserve, TLC, Json

CONSTANTS Family, MaxN, MaxLen, MaxBody, Export

VARIABLES view, done
ovars == <<view, done>>

T0 == 100 * 4          \* roEdStart: 100 s after the base instant
Zone(z) == z * 134217728       \* 2^27: the UTC-offset designator of a time (0 none, 1 "Z", 2 "+01:00", 3 "-05:00")

TShape(md, sd, tt, mt, st, en) == [md |-> md, sd |-> sd, tt |-> tt, mt |-> mt, st |-> st, en |-> en]
TShapes(i) ==
  { TShape("none", Nil, Nil, Nil, Nil, Nil),
    TShape("nopayload", Nil, Nil, Nil, Nil, Nil),
    TShape("payload", Nil, Nil, Nil, Nil, Nil),
    TShape("payload", Some(20 + i), Nil, Nil, Nil, Nil),
    TShape("payload", Some(0), Nil, Nil, Nil, Nil),               \* a story of zero seconds has a duration
    TShape("payload", Nil, Some(0), Some(0), Nil, Nil),
    TShape("payload", Nil, Some(12 + 4*i), Nil, Nil, Nil),
    TShape("payload", Nil, Nil, Some(8 + i), Nil, Nil),
    TShape("payload", Nil, Some(12 + i), Some(10), Nil, Nil),
    TShape("payload", Some(20 + i), Some(400), Nil, Nil, Nil),
    TShape("payload", Some(24), Nil, Nil, Some(4000 + 40*i), Nil),
    TShape("payload", Some(24), Nil, Nil, Nil, Some(8000 + 40*i)),
    TShape("payload", Nil, Nil, Nil, Some(4000 + 40*i), Some(4100 + 40*i)),
    TShape("payload", Some(24), Nil, Nil, Some(Zone(1) + 4000 + 40*i), Nil),          \* explicit times with a UTC offset
    TShape("payload", Nil, Nil, Nil, Some(Zone(2) + 4000 + 40*i), Some(Zone(2) + 4100 + 40*i)),
    TShape("payload", Some(24), Nil, Nil, Some(Zone(3) + 4000 + 40*i), Nil),          \* an offset west of Greenwich
    TShape("payload", Nil, Some(20 + i), Some(0 - 60), Nil, Nil),                     \* a negative MediaTime: the sums are sums
    TShape("payload", Some(0 - 10), Nil, Nil, Nil, Nil) }

(* running orders of three and more stories use a reduced set of shapes     *)
TShapesSmall(i) ==
  { TShape("none", Nil, Nil, Nil, Nil, Nil),
    TShape("payload", Nil, Nil, Nil, Nil, Nil),
    TShape("payload", Some(20 + i), Nil, Nil, Nil, Nil),
    TShape("payload", Nil, Some(12 + 4*i), Nil, Nil, Nil),
    TShape("payload", Nil, Some(12 + i), Some(10), Nil, Nil),
    TShape("payload", Some(24), Nil, Nil, Some(Zone(1) + 4000 + 40*i), Nil),
    TShape("payload", Some(24), Nil, Nil, Nil, Some(8000 + 40*i)),
    TShape("payload", Nil, Some(20 + i), Some(0 - 60), Nil, Nil) }
ShapesFor(n, j) == IF n <= 2 THEN TShapes(j) ELSE TShapesSmall(j)

ItemView(id, full) ==
  [id |-> id, slug |-> "slug " \o id,
   type |-> IF full THEN "VIDEO" ELSE NoneS, object_id |-> IF full THEN "obj." \o id ELSE NoneS,
   mos_id |-> IF full THEN "mos.x" ELSE NoneS, note |-> IF full THEN "note " \o id ELSE NoneS]

P(text)   == [kind |-> "p", text |-> text, mixed |-> FALSE, id |-> NoneS]
It(id)    == [kind |-> "item", text |-> <<>>, mixed |-> FALSE, id |-> id]
Other     == [kind |-> "other", text |-> <<>>, mixed |-> FALSE, id |-> NoneS]

ItemsOf(body) ==
  LET its == SelectSeq(body, LAMBDA b : b.kind = "item")
  IN [k \in DOMAIN its |-> ItemView(its[k].id, k = 1)]

StoryV(id, sh, body) ==
  [id |-> id, slug |-> IF sh.md = "none" THEN NoneS ELSE "slug " \o id, md |-> sh.md,
   sd |-> sh.sd, tt |-> sh.tt, mt |-> sh.mt, st |-> sh.st, en |-> sh.en,
   body |-> body, items |-> ItemsOf(body)]

SId(i) == "S" \o ToString(i)
DefaultBody(i) == << P(<<72, 105, 32>> \o <<48 + i>>), It("I1"), P(<<40, 110, 111, 116, 101, 41>>), It("I2") >>

(* story `blank` (0 = none) has a blank storyID                            *)
TimingViews ==
  UNION { UNION { { [edstart |-> ed, exact |-> TRUE,
                     stories |-> [i \in 1..n |-> StoryV(IF i = blank THEN NoneS ELSE SId(i), f[i], DefaultBody(i))]]
                      : f \in { g \in [1..n -> UNION { ShapesFor(n, j) : j \in 1..n }] : \A i \in 1..n : g[i] \in ShapesFor(n, i) } }
                  : ed \in {Nil, Some(T0), Some(Zone(1) + T0)}, blank \in 0..n }
          : n \in 0..MaxN }

Alphabet == {32, 9, 10, 160, 40, 41, 60, 62, 97}      \* space tab newline nbsp ( ) < > a
(* carriage return, thin space, full-width ( ), a combining accent: one character shorter *)
Extra == {13, 8201, 65288, 65289, 769, 91, 93, 123, 125}         \* ... and [ ] { }
Texts == UNION { [1..k -> Alphabet] : k \in 0..MaxLen } \cup UNION { [1..k -> Alphabet \cup Extra] : k \in 0..(MaxLen - 1) }
DurShape == TShape("payload", Some(20), Nil, Nil, Nil, Nil)

BodyElems == { P(<<97, 32, 98>>), P(<<>>), P(<<32, 40, 120, 41>>), It("I1"), It("I2"), Other }
Bodies == UNION { [1..k -> BodyElems] : k \in 0..MaxBody }

TextViews ==
  { [edstart |-> Some(T0), exact |-> TRUE, stories |-> << StoryV("S1", DurShape, <<P(t)>>) >>] : t \in Texts }
  \cup { [edstart |-> Nil, exact |-> TRUE,
          stories |-> << StoryV("S1", DurShape, b), StoryV("S2", DurShape, <<P(<<122>>), It("I7")>>) >>] : b \in Bodies }
  \cup { [edstart |-> Nil, exact |-> TRUE,
          stories |-> << StoryV("S1", DurShape, <<It("I7"), P(<<122>>)>>), StoryV("S2", DurShape, b) >>] : b \in Bodies }

Views == IF Family = "timing" THEN TimingViews ELSE TextViews

Init == view \in Views /\ done = FALSE
Observe ==
  /\ ~done
  /\ done' = TRUE
  /\ view' = view
  /\ (Export => PrintT(<<"VIEW", ToJson([view |-> view])>>))
Next == Observe
Spec == Init /\ [][Next]_ovars

(* ---------------------------------------------------------------------- *)
(* Theorems                                                               *)
(* ---------------------------------------------------------------------- *)
S == view.stories
N == Len(S)
AllDur == AllDurUpTo(S, N)
NoExplicit == \A i \in 1..N : S[i].st = Nil /\ S[i].en = Nil

(* C16: sums and prefix sums                                              *)
Inv_Sums ==
  AllDur =>
     /\ RoDuration(S) = Some(SumDur(S, N))
     /\ \A i \in 1..N : Offset(S, i) = Some(SumDur(S, i-1))
     /\ \A i \in 1..(N-1) : Val(Offset(S, i+1)) = Val(Offset(S, i)) + Val(Dur(S[i]))
     /\ N >= 1 => Val(RoDuration(S)) = Val(Offset(S, N)) + Val(Dur(S[N]))
(* C16: derived times chain when nothing is explicit                      *)
Inv_Chain ==
  (AllDur /\ NoExplicit /\ view.edstart # Nil) =>
     /\ \A i \in 1..(N-1) : End(view, i) = Start(view, i+1)
     /\ N >= 1 => RoEnd(view) = Some(Val(view.edstart) + Val(RoDuration(S)))
     /\ N >= 1 => Start(view, 1) = view.edstart
(* C16: explicit times win; no start => no derived end                    *)
Inv_Explicit ==
  \A i \in 1..N :
     /\ S[i].st # Nil => Start(view, i) = S[i].st
     /\ S[i].en # Nil => End(view, i) = S[i].en
     /\ (view.edstart = Nil /\ S[i].st = Nil /\ S[i].en = Nil) => (Start(view, i) = Nil /\ End(view, i) = Nil)
(* C16: duration precedence                                               *)
Inv_DurPrecedence ==
  \A i \in 1..N :
     /\ S[i].sd # Nil => Dur(S[i]) = S[i].sd
     /\ (S[i].sd = Nil /\ S[i].tt = Nil /\ S[i].mt = Nil) => Dur(S[i]) = Nil
     /\ (S[i].sd = Nil /\ (S[i].tt # Nil \/ S[i].mt # Nil)) => Dur(S[i]) = Some(OrZero(S[i].tt) + OrZero(S[i].mt))
(* C17: script entries are stripped, non-empty, never technical notes;    *)
(* strip is idempotent; body keeps every p and item                       *)
Inv_Script ==
  \A i \in 1..N :
     /\ \A k \in DOMAIN Script(S[i]) :
           LET t == Script(S[i])[k]
           IN t # <<>> /\ ~IsWS(t[1]) /\ ~IsWS(t[Len(t)]) /\ ~IsTechNote(t) /\ Strip(t) = t
     /\ Len(Body(S[i])) = Len(SelectSeq(S[i].body, LAMBDA b : b.kind # "other"))
     /\ Len(Script(S[i])) <= Len(Paragraphs(S[i]))
Inv_Concat ==
  /\ Len(RoScript(view)) = (IF N = 0 THEN 0 ELSE IF N = 1 THEN Len(Script(S[1])) ELSE Len(Script(S[1])) + Len(Script(S[2])) + (IF N = 3 THEN Len(Script(S[3])) ELSE 0))
  /\ N = 2 => RoBody(view) = Body(S[1]) \o Body(S[2])
=============================================================================
