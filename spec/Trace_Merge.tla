---------------------------- MODULE Trace_Merge ----------------------------
(***************************************************************************)
(* Trace validation of recorded `ro += msg` steps (code -> spec).          *)
(*                                                                         *)
(* TRACE_FILE holds a JSON array of events                                 *)
(*   [id, obj, k, pre, msg, post, status, warns, ser_eq, intact, cls,      *)
(*    completed_eq, acc_eq, expose_intact]                                 *)
(*    k: "merge" | "remerge" | "reload" | "idle" | "observe"               *)
(*    intact        : every live message object still serialises as parsed *)
(*    expose_intact : ... and still exposes the same targets/sources       *)
(*    unshared      : no Element object is reachable from two of the live   *)
(*                    trees (running orders, messages): MosAlias!NoSharedNodes *)
(*    acc_eq        : (reload) the library's accessors agree between the   *)
(*                    live object and the object read back                 *)
(* recorded at the return of the public call (error path included).        *)
(* Every event is judged in TLA+ (MosJudge!Failing) against Merge(pre,msg) *)
(* and the per-property lenses; the verdict is total (all clauses, every   *)
(* event), names the failing clauses, and the next event is judged from    *)
(* the state the implementation really was in.  For events of one live     *)
(* object (same obj) the recorded pre-state must equal the previous        *)
(* post-state ("continuity": nothing changed the object outside a          *)
(* recorded step).                                                         *)
(***************************************************************************)
EXTENDS MosJudge, TLCExt, Json, IOUtils

Events == JsonDeserialize(IOEnv.TRACE_FILE)

VARIABLES l, cur      \* position; last known post-state per live object
tvars == <<l, cur>>

NoState == [root |-> <<>>, kids |-> <<>>]

Init == l = 1 /\ cur = [o \in {} |-> NoState]

(* per kind of recorded step: the failing clauses                          *)
StepFailing(ev) ==
  CASE ev.k \in {"merge", "remerge"} ->
         Failing(ev) \o (IF ev.intact THEN <<>> ELSE <<"msg_intact">>)
                     \o (IF ev.expose_intact THEN <<>> ELSE <<"msg_expose">>)
                     \o (IF ev.unshared THEN <<>> ELSE <<"msg_unshared">>)
                     \* (history steps) the same two contents, freshly read, gave the same outcome
                     \o (IF "fresh_eq" \in DOMAIN ev /\ ~ev.fresh_eq THEN <<"history_free">> ELSE <<>>)
    [] ev.k = "reload" ->
         (IF ev.status = "ok" /\ ev.post = ev.pre /\ ev.ser_eq /\ ev.acc_eq THEN <<>> ELSE <<"reload_identity">>)
         \o (IF ev.status = "ok" /\ ev.cls = "RunningOrder" /\ ev.completed_eq
             THEN <<>> ELSE <<"reload_completed">>)
    [] ev.k = "parse" ->        \* recorded only when the library read a document differently from the reference parser
         <<IF ev.status = "ro" THEN "parse_faithful_ro" ELSE "parse_faithful_msg">>
    [] OTHER -> <<>>            \* "idle": only continuity is checked

Judge(ev) ==
  LET f == StepFailing(ev)
      cont == (ev.obj \in DOMAIN cur) => cur[ev.obj] = ev.pre
      all == f \o (IF cont THEN <<>> ELSE <<"continuity">>)
  IN all # <<>> =>
       PrintT(<<"BAD", ToJson([at |-> l, id |-> ev.id, k |-> ev.k, clauses |-> all,
                               sig |-> IF ev.k \in {"merge", "remerge"} THEN Sig(ev) ELSE ev.k])>>)

Next ==
  /\ l <= Len(Events)
  /\ LET ev == Events[l]
     IN /\ Judge(ev)
        /\ cur' = IF ev.obj = 0 THEN cur
                  ELSE [o \in (DOMAIN cur) \cup {ev.obj} |->
                          IF o # ev.obj THEN cur[o]
                          ELSE IF ev.k = "reload" THEN ev.pre    \* the live object itself is not changed by a reload
                          ELSE ev.post]
  /\ l' = l + 1
  /\ (l = Len(Events) => PrintT(<<"JUDGED", ToString(Len(Events))>>))

Spec == Init /\ [][Next]_tvars

AllConsumed == TLCGet("stats").diameter - 1 = Len(Events)
=============================================================================
