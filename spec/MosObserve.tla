----------------------------- MODULE MosObserve -----------------------------
(***************************************************************************)
(* The read side of mosromgr: what every accessor of a running order, its  *)
(* stories and items must return, as a function of the document (C15-C17). *)
(*                                                                         *)
(* The "view" of a running order (read directly from the XML by alpha):    *)
(*   [edstart, exact, numeric, stories]                                    *)
(*   edstart : Opt(Int)  roEdStart, quarter-seconds since 2020-01-01       *)
(*   exact   : all numbers in the view are exactly representable           *)
(*   stories : Seq of                                                      *)
(*     [id, slug, sd, tt, mt, st, en, body, items]                         *)
(*     sd, tt, mt : Opt(Int) StoryDuration / TextTime / MediaTime          *)
(*                  (quarter-seconds) of the first mosExternalMetadata's   *)
(*                  mosPayload                                             *)
(*     st, en     : Opt(Int) StoryStarted / StoryEnded                     *)
(*     body  : children in document order,                                 *)
(*             [kind : "p" | "item" | "other", text : Seq(code point),     *)
(*              mixed : p has child elements (outside C17), id]            *)
(*     items : Seq of [id, slug, type, object_id, mos_id, note]            *)
(* A time is (local quarter-seconds since the base instant) + Zone * 2^27, *)
(* Zone = 0 without a UTC-offset designator, 1 for "Z", 2 for "+01:00":    *)
(* the designator is part of the value and is carried by derived times.    *)
(* A story whose storyID is blank has id None ("~").                       *)
(* Opt(x) is <<>> (absent, the accessor returns None) or <<x>>.            *)
(* Any == <<-1>> marks a value the properties leave unconstrained.         *)
(***************************************************************************)
EXTENDS Naturals, Integers, Sequences, FiniteSets

NoneS == "~"
Nil == <<>>
Some(x) == <<x>>
Any == <<-1>>
IsSome(o) == o # <<>> /\ o # Any
Val(o) == o[1]

(* ---------------------------------------------------------------------- *)
(* C16: durations, offsets, start and end times                           *)
(* ---------------------------------------------------------------------- *)
OrZero(o) == IF o = Nil THEN 0 ELSE Val(o)

(* StoryDuration if present, otherwise TextTime + MediaTime (a missing one *)
(* counting as zero); None when none of the three is present               *)
Dur(s) ==
  IF s.sd # Nil THEN s.sd
  ELSE IF s.tt = Nil /\ s.mt = Nil THEN Nil
  ELSE Some(OrZero(s.tt) + OrZero(s.mt))

RECURSIVE SumDur(_, _)
SumDur(S, n) == IF n = 0 THEN 0 ELSE SumDur(S, n-1) + Val(Dur(S[n]))

AllDurUpTo(S, n) == \A j \in 1..n : Dur(S[j]) # Nil

(* offset of story i: the sum of the durations of the stories before it;  *)
(* unconstrained once an earlier story has no duration                    *)
Offset(S, i) == IF AllDurUpTo(S, i-1) THEN Some(SumDur(S, i-1)) ELSE Any

RoDuration(S) == IF AllDurUpTo(S, Len(S)) THEN Some(SumDur(S, Len(S))) ELSE Nil

Start(V, i) ==
  LET s == V.stories[i]
      off == Offset(V.stories, i)
  IN IF s.st # Nil THEN s.st
     ELSE IF V.edstart = Nil THEN Nil
     ELSE IF off = Any THEN Any
     ELSE Some(Val(V.edstart) + Val(off))

End(V, i) ==
  LET s == V.stories[i]
      st == Start(V, i)
      d == Dur(s)
  IN IF s.en # Nil THEN s.en
     ELSE IF st = Nil \/ d = Nil THEN Nil
     ELSE IF st = Any THEN Any
     ELSE Some(Val(st) + Val(d))

RoStart(V) == V.edstart
RoEnd(V)   == IF V.stories = <<>> THEN Nil ELSE End(V, Len(V.stories))

(* ---------------------------------------------------------------------- *)
(* C17: script and body                                                   *)
(* ---------------------------------------------------------------------- *)
(* code points Python's str.strip() removes                               *)
WS == {9, 10, 11, 12, 13, 28, 29, 30, 31, 32, 133, 160, 5760, 8232, 8233, 8239, 8287, 12288}
      \cup (8192..8202)
IsWS(c) == c \in WS

LeadWS(t)  == IF \E i \in DOMAIN t : ~IsWS(t[i])
              THEN (CHOOSE i \in DOMAIN t : ~IsWS(t[i]) /\ \A j \in 1..(i-1) : IsWS(t[j])) - 1
              ELSE Len(t)
TrailWS(t) == IF \E i \in DOMAIN t : ~IsWS(t[i])
              THEN Len(t) - (CHOOSE i \in DOMAIN t : ~IsWS(t[i]) /\ \A j \in (i+1)..Len(t) : IsWS(t[j]))
              ELSE 0
Strip(t) == IF LeadWS(t) = Len(t) THEN <<>> ELSE SubSeq(t, LeadWS(t) + 1, Len(t) - TrailWS(t))

LPAR == 40
RPAR == 41
LT == 60
GT == 62
(* technical note: stripped text wrapped in round or angle brackets       *)
IsTechNote(t) ==
  LET s == Strip(t)
  IN s # <<>> /\ ( (s[1] = LPAR /\ s[Len(s)] = RPAR) \/ (s[1] = LT /\ s[Len(s)] = GT) )

Paragraphs(s) == SelectSeq(s.body, LAMBDA b : b.kind = "p")
HasMixed(s)   == \E i \in DOMAIN s.body : s.body[i].kind = "p" /\ s.body[i].mixed

(* the non-empty paragraphs that are not technical notes, stripped        *)
Script(s) ==
  LET keep == SelectSeq(Paragraphs(s), LAMBDA b : Strip(b.text) # <<>> /\ ~IsTechNote(b.text))
  IN [i \in DOMAIN keep |-> Strip(keep[i].text)]

(* every paragraph (its text, empty when empty) and every item, in order  *)
BodyEntry(b) == [kind |-> b.kind, text |-> IF b.kind = "p" THEN b.text ELSE <<>>,
                 id |-> IF b.kind = "item" THEN b.id ELSE NoneS]
Body(s) ==
  LET keep == SelectSeq(s.body, LAMBDA b : b.kind \in {"p", "item"})
  IN [i \in DOMAIN keep |-> BodyEntry(keep[i])]

RECURSIVE Concat(_)
Concat(ss) == IF ss = <<>> THEN <<>> ELSE Head(ss) \o Concat(Tail(ss))

RoScript(V) == Concat([i \in DOMAIN V.stories |-> Script(V.stories[i])])
RoBody(V)   == Concat([i \in DOMAIN V.stories |-> Body(V.stories[i])])

(* ---------------------------------------------------------------------- *)
(* The judge: an observation                                              *)
(*   obs == [raised, ro : [duration, start, end_, script, body],           *)
(*           stories : Seq([id, slug, duration, offset, start, end_,      *)
(*                          script, body, items])]                         *)
(* against the view                                                        *)
(* ---------------------------------------------------------------------- *)
OptOk(exp, got) == exp = Any \/ exp = got

SameLen(V, O) == Len(O.stories) = Len(V.stories)

ObsTotal(O) == O.raised = <<>>

(* absent data yields None - and data the document determines yields a    *)
(* value (whatever C16 says about which value)                            *)
NoneAgrees(exp, got) == exp = Any \/ ((exp = Nil) <=> (got = Nil))

(* C15: listed in document order with the ids and slugs of the XML        *)
ObsAgree(V, O) ==
  /\ SameLen(V, O)
  /\ \A i \in DOMAIN V.stories :
        /\ O.stories[i].id = V.stories[i].id
        /\ O.stories[i].slug = V.stories[i].slug
        /\ O.stories[i].items = V.stories[i].items
  /\ (V.exact /\ \A i, j \in DOMAIN V.stories : i # j => V.stories[i].id # V.stories[j].id) =>
        /\ NoneAgrees(RoDuration(V.stories), O.ro.duration)
        /\ NoneAgrees(RoStart(V), O.ro.start)
        /\ NoneAgrees(RoEnd(V), O.ro.end_)
        /\ \A i \in DOMAIN V.stories :
              /\ NoneAgrees(Dur(V.stories[i]), O.stories[i].duration)
              /\ NoneAgrees(Offset(V.stories, i), O.stories[i].offset)
              /\ NoneAgrees(Start(V, i), O.stories[i].start)
              /\ NoneAgrees(End(V, i), O.stories[i].end_)

(* offsets are defined per story; running orders with repeated story ids *)
(* are outside the premise of C16                                         *)
UniqueIds(V) == \A i, j \in DOMAIN V.stories : i # j => V.stories[i].id # V.stories[j].id

TimingOk(V, O) ==
  \/ ~V.exact
  \/ ~UniqueIds(V)
  \/ /\ SameLen(V, O)
     /\ O.ro.duration = RoDuration(V.stories)
     /\ O.ro.start = RoStart(V)
     /\ OptOk(RoEnd(V), O.ro.end_)
     /\ \A i \in DOMAIN V.stories :
           /\ O.stories[i].duration = Dur(V.stories[i])
           /\ OptOk(Offset(V.stories, i), O.stories[i].offset)
           /\ OptOk(Start(V, i), O.stories[i].start)
           /\ OptOk(End(V, i), O.stories[i].end_)

ScriptOk(V, O) ==
  \/ \E i \in DOMAIN V.stories : HasMixed(V.stories[i])
  \/ /\ SameLen(V, O)
     /\ \A i \in DOMAIN V.stories :
           /\ O.stories[i].script = Script(V.stories[i])
           /\ O.stories[i].body = Body(V.stories[i])
     /\ O.ro.script = RoScript(V)
     /\ O.ro.body = RoBody(V)

(* V.numeric = FALSE: some StoryDuration / TextTime / MediaTime is blank or *)
(* not a number - C15 speaks about "numeric durations ... where present",  *)
(* so an accessor that raises on such a view is not judged                 *)
ObsFailing(V, O) ==
  (IF ObsTotal(O) \/ ~V.numeric THEN <<>> ELSE <<"obs_total">>)
  \o (IF ObsTotal(O) => ObsAgree(V, O) THEN <<>> ELSE <<"obs_agree">>)
  \o (IF ObsTotal(O) => TimingOk(V, O) THEN <<>> ELSE <<"timing">>)
  \o (IF ObsTotal(O) => ScriptOk(V, O) THEN <<>> ELSE <<"script_body">>)

(* what a conforming implementation returns (Any resolved to the prefix   *)
(* sums / None): used to check the identities on the spec itself          *)
=============================================================================
