#!/bin/sh
# Offline setup: nothing to build. Checks that every TLA+ module parses and that the repo imports.
cd "$(dirname "$0")" || exit 1
mkdir -p .work/jtmp evidence replays
for m in spec/*.tla; do
  (cd spec && java -Djava.io.tmpdir=/verif/.work/jtmp -cp /opt/veriftools/tla/tla2tools.jar:/opt/veriftools/tla/CommunityModules-deps.jar tla2sany.SANY "$(basename "$m")" >/dev/null 2>&1) || { echo "SANY failed on $m"; exit 1; }
done
PYTHONPATH=/repo /venv/bin/python -c "import mosromgr.mostypes, mosromgr.moscollection, mosromgr.cli" || exit 1
echo setup ok
